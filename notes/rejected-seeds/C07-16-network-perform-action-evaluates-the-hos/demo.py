"""C07 demo 2: when the network-level preconditions of a stochastic action
hold (target reachable and discovered, traffic permitted, host compromised for
a privilege escalation), a random draw above the action's probability is a
chance failure and must be reported as an undefined error (and nothing else),
whatever the configuration of the target host.

Scenario (valid YAML): host (1, 0) runs ssh only and no processes.
  e_ssh     : ssh, prob 1.0       (used to compromise (1, 0))
  e_ftp     : ftp, prob 0.5       (ftp is NOT running on (1, 0))
  pe_tomcat : tomcat, prob 0.5    (tomcat is NOT running on (1, 0))
The draw each step will use is known in advance by seeding numpy.
"""
import os
import sys
import tempfile

import numpy as np
import nasim

SCENARIO = """
subnets: [1, 1]
topology: [[ 1, 1, 0],
           [ 1, 1, 1],
           [ 0, 1, 1]]
sensitive_hosts:
  (2, 0): 100
os:
  - linux
services:
  - ssh
  - ftp
processes:
  - tomcat
exploits:
  e_ssh:
    service: ssh
    os: linux
    prob: 1.0
    cost: 1
    access: user
  e_ftp:
    service: ftp
    os: linux
    prob: 0.5
    cost: 1
    access: root
privilege_escalation:
  pe_tomcat:
    process: tomcat
    os: linux
    prob: 0.5
    cost: 1
    access: root
service_scan_cost: 1
os_scan_cost: 1
subnet_scan_cost: 1
process_scan_cost: 1
host_configurations:
  (1, 0):
    os: linux
    services: [ssh]
    processes: []
  (2, 0):
    os: linux
    services: [ssh, ftp]
    processes: [tomcat]
firewall:
  (0, 1): [ssh, ftp]
  (1, 0): []
  (1, 2): [ssh, ftp]
  (2, 1): [ssh, ftp]
step_limit: 1000
"""

FLAGS = ("connection_error", "permission_error", "undefined_error")


def find(env, name, target):
    for idx, a in enumerate(env.action_space.actions):
        if a.name == name and a.target == target:
            return idx, a
    raise SystemExit(f"action {name} {target} not found")


def seeded_step(env, a_idx, seed):
    """Step with a known draw: returns (draw, info, state changed?)."""
    np.random.seed(seed)
    draw = np.random.rand()
    np.random.seed(seed)
    before = env.current_state.tensor.copy()
    _, reward, _, _, info = env.step(a_idx)
    changed = not np.array_equal(before, env.current_state.tensor)
    return draw, reward, info, changed


def main():
    fd, path = tempfile.mkstemp(suffix=".yaml")
    with os.fdopen(fd, "w") as fout:
        fout.write(SCENARIO)
    try:
        env = nasim.load(path, fully_obs=True, flat_actions=True,
                         flat_obs=False)
    finally:
        os.unlink(path)

    ssh_idx, _ = find(env, "e_ssh", (1, 0))
    ftp_idx, ftp = find(env, "e_ftp", (1, 0))
    pe_idx, pe = find(env, "pe_tomcat", (1, 0))

    problems = []
    checked = 0
    for seed in range(20):
        env.reset()
        # stochastic exploit, network preconditions hold ((1, 0) is public and
        # the subnet firewall lets ftp in), host does not run ftp
        draw, reward, info, changed = seeded_step(env, ftp_idx, seed)
        if draw > ftp.prob:
            checked += 1
            flags = [k for k in FLAGS if info[k]]
            if info["success"] or flags != ["undefined_error"] or changed \
               or reward != -ftp.cost:
                problems.append(
                    f"seed {seed}: e_ftp (prob {ftp.prob}) on (1, 0) with "
                    f"draw {draw:.3f} > prob: success={info['success']}, "
                    f"flags={flags}; expected a chance failure reported as "
                    "['undefined_error']"
                )

        np.random.seed(1000 + seed)
        _, _, _, _, info = env.step(ssh_idx)
        assert info["success"], info

        # stochastic privilege escalation on the compromised host, which does
        # not run tomcat
        draw, reward, info, changed = seeded_step(env, pe_idx, seed + 100)
        if draw > pe.prob:
            checked += 1
            flags = [k for k in FLAGS if info[k]]
            if info["success"] or flags != ["undefined_error"] or changed \
               or reward != -pe.cost:
                problems.append(
                    f"seed {seed}: pe_tomcat (prob {pe.prob}) on compromised "
                    f"(1, 0) with draw {draw:.3f} > prob: success="
                    f"{info['success']}, flags={flags}; expected a chance "
                    "failure reported as ['undefined_error']"
                )

    assert checked >= 10, checked
    if problems:
        print("FAIL")
        for p in problems[:6]:
            print("  " + p)
        return 1
    print("PASS")
    return 0


if __name__ == "__main__":
    sys.exit(main())
