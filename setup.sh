#!/bin/bash
# Offline setup: third-party helpers (runtime contracts, evidence validation)
# go into the git-ignored .deps beside the framework.
cd "$(dirname "$0")" || exit 2
if ! /venv/bin/python -c "import sys; sys.path.insert(0, '.deps'); import icontract, jsonschema" 2>/dev/null; then
  PIP_NO_INDEX=1 /venv/bin/pip install --quiet --no-index --find-links /opt/veriftools/wheels \
      --target .deps icontract jsonschema >/dev/null 2>&1 || \
  /venv/bin/pip install --no-index --find-links /opt/veriftools/wheels --target .deps icontract jsonschema
fi
/venv/bin/python -c "import sys; sys.path.insert(0, '.deps'); import icontract, jsonschema, nasim; print('setup ok', nasim.__file__)"
