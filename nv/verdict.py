"""Accounting, three-valued verdicts, known findings and evidence files."""
import hashlib
import json
import os
import time

ROOT = os.path.dirname(os.path.dirname(os.path.abspath(__file__)))
_ON_REPO = os.path.realpath(os.environ.get("NV_REPO", "/repo")) == "/repo"
# runs against scratch copies (mutation validation) never touch the evidence
EVIDENCE_DIR = os.path.join(ROOT, "evidence" if _ON_REPO
                            else ".scratch/evidence")
REPLAY_DIR = os.path.join(ROOT, "replays" if _ON_REPO
                          else ".scratch/replays")
KNOWN_FILE = os.path.join(ROOT, "known_findings.json")
SCHEMA = "/root/.vp/EVIDENCE.schema.json"
SCHEMA_LOCAL = os.path.join(ROOT, "tools", "EVIDENCE.schema.json")


def h64(*parts):
    m = hashlib.blake2b(digest_size=8)
    for p in parts:
        if isinstance(p, bytes):
            m.update(p)
        else:
            m.update(repr(p).encode())
        m.update(b"|")
    return int.from_bytes(m.digest(), "big")


def jsonable(x):
    import numpy as np
    if isinstance(x, dict):
        return {str(k): jsonable(v) for k, v in x.items()}
    if isinstance(x, (list, tuple, set, frozenset)):
        return [jsonable(v) for v in x]
    if isinstance(x, np.generic):
        return x.item()
    if isinstance(x, np.ndarray):
        return x.tolist()
    if isinstance(x, (str, int, float, bool)) or x is None:
        return x
    return repr(x)


class Acc:
    """Per-worker accumulator."""
    MAX_VIOL = 12
    MAX_SAMPLES = 4

    def __init__(self, prop):
        self.prop = prop
        self.evaluations = 0
        self.counters = {}
        self.distinct = {}          # group -> set of 64-bit hashes
        self.samples = []
        self.violations = []
        self.n_violations = 0
        self.inconclusive = []
        self.extra = {}
        self._seen_mech = {}

    def count(self, key, n=1):
        self.counters[key] = self.counters.get(key, 0) + n

    def nontrivial(self, group, *key):
        """Register one distinct non-trivial case (group = scenario fp or any
        partition key that is disjoint between shards)."""
        self.distinct.setdefault(str(group), set()).add(h64(*key))

    def sample(self, obj, force=False):
        if len(self.samples) < self.MAX_SAMPLES or force:
            self.samples.append(jsonable(obj))

    def violation(self, code, mechanism, detail, witness=None):
        """code: short name of the broken clause; mechanism: classifier key
        used by the known-findings file; witness: replayable case."""
        self.n_violations += 1
        k = (code, mechanism)
        self._seen_mech[k] = self._seen_mech.get(k, 0) + 1
        if self._seen_mech[k] <= 2 and len(self.violations) < self.MAX_VIOL:
            if hasattr(witness, "witness"):
                witness = witness.witness()     # lazily, only when stored
            elif callable(witness):
                witness = witness()
            self.violations.append({
                "code": code, "mechanism": mechanism,
                "detail": jsonable(detail), "witness": jsonable(witness)})

    def result(self):
        return {
            "prop": self.prop,
            "evaluations": self.evaluations,
            "counters": self.counters,
            "distinct": {g: sorted(s) for g, s in self.distinct.items()},
            "samples": self.samples,
            "violations": self.violations,
            "n_violations": self.n_violations,
            "mech_counts": {f"{c}|{m}": n
                            for (c, m), n in self._seen_mech.items()},
            "inconclusive": self.inconclusive,
            "extra": jsonable(self.extra),
        }


def merge(results):
    out = {"evaluations": 0, "counters": {}, "distinct": {}, "samples": [],
           "violations": [], "n_violations": 0, "mech_counts": {},
           "inconclusive": [], "extra": {}}
    for r in results:
        out["evaluations"] += r["evaluations"]
        for k, v in r["counters"].items():
            out["counters"][k] = out["counters"].get(k, 0) + v
        for g, hs in r["distinct"].items():
            out["distinct"].setdefault(g, set()).update(hs)
        out["samples"].extend(r["samples"][:2])
        out["violations"].extend(r["violations"])
        out["n_violations"] += r["n_violations"]
        for k, v in r["mech_counts"].items():
            out["mech_counts"][k] = out["mech_counts"].get(k, 0) + v
        out["inconclusive"].extend(r["inconclusive"])
        for k, v in r["extra"].items():
            if k == "subject_coverage":
                c = out["extra"].setdefault(
                    k, {"hit": {}, "total": {}, "never": None})
                for f, lines in v.get("hit", {}).items():
                    c["hit"].setdefault(f, set()).update(lines)
                c["total"].update(v.get("total", {}))
                nv_ = set(v.get("never", []))
                c["never"] = nv_ if c["never"] is None else c["never"] & nv_
            elif k.startswith("max_"):
                out["extra"][k] = max(out["extra"].get(k, 0), v)
            elif isinstance(v, (int, float)) and not isinstance(v, bool):
                out["extra"][k] = out["extra"].get(k, 0) + v
            elif isinstance(v, list):
                out["extra"].setdefault(k, []).extend(v)
            elif isinstance(v, dict):
                d = out["extra"].setdefault(k, {})
                for kk, vv in v.items():
                    if isinstance(vv, (int, float)) and \
                            not isinstance(vv, bool):
                        d[kk] = d.get(kk, 0) + vv
                    else:
                        d[kk] = vv
            else:
                out["extra"][k] = v
    c = out["extra"].get("subject_coverage")
    if c:
        out["extra"]["subject_coverage"] = {
            "lines_executed/executable": {
                f: [len(c["hit"].get(f, ())), n]
                for f, n in sorted(c["total"].items())},
            "functions_never_entered": sorted(c["never"] or [])[:80]}
    out["distinct_nontrivial"] = sum(len(s) for s in out["distinct"].values())
    out["distinct_groups"] = len(out["distinct"])
    del out["distinct"]
    out["samples"] = out["samples"][:6]
    return out


# ----------------------------------------------------------------------
def load_known():
    try:
        with open(KNOWN_FILE) as f:
            return json.load(f)
    except FileNotFoundError:
        return {"open": [], "fixed": []}


def classify(prop, violations):
    """Split violations into (unknown, known) using the committed file.  A
    violation is known iff an *open* entry of the same property names the
    same mechanism.  Fixed entries suppress nothing."""
    known = load_known()
    open_mech = {e["mechanism"]: e for e in known.get("open", [])
                 if e["property"] == prop}
    unknown, seen = [], {}
    for v in violations:
        e = open_mech.get(v["mechanism"])
        if e is None:
            unknown.append(v)
        else:
            seen.setdefault(e["id"], (e, []))[1].append(v)
    return unknown, seen


def write_replay(prop, violation, seed, tier):
    os.makedirs(REPLAY_DIR, exist_ok=True)
    blob = json.dumps(violation, sort_keys=True, default=repr)
    name = f"{prop}-{hashlib.sha256(blob.encode()).hexdigest()[:10]}.json"
    path = os.path.join(REPLAY_DIR, name)
    with open(path, "w") as f:
        json.dump({"property": prop, "seed": seed, "tier": tier,
                   "violation": violation}, f, indent=1, default=repr)
    return path


def write_evidence(prop, tier, seed, level, merged, rule, wall, assumptions,
                   verdict, known_seen, floors=None):
    os.makedirs(EVIDENCE_DIR, exist_ok=True)
    cov = {
        "evaluations": int(merged["evaluations"]),
        "distinct_nontrivial": int(merged["distinct_nontrivial"]),
        "rule": rule,
        "samples": merged["samples"] or [],
        "counters": merged["counters"],
        "distinct_groups": merged.get("distinct_groups", 0),
        "verdict": verdict,
        "inconclusive_reasons": merged["inconclusive"][:10],
        "violation_mechanisms": merged["mech_counts"],
        "known_findings_seen": {k: len(v[1]) for k, v in known_seen.items()},
        "coverage_floors": floors or {},
    }
    for k, v in merged["extra"].items():
        if k in ("states", "transitions") and isinstance(v, (int, float)):
            cov[k] = int(v)
        elif k == "exhaustive":
            cov[k] = bool(v)
        else:
            cov.setdefault("extra", {})[k] = v
    ev = {"property_id": prop, "tier": tier, "seed": int(seed),
          "level": level, "coverage": cov, "assumptions": assumptions,
          "wall_s": round(wall, 2),
          "violations": int(merged["n_violations"])}
    path = os.path.join(EVIDENCE_DIR, f"{prop}.json")
    ok, msg = validate_evidence(ev)
    ev["coverage"]["schema_valid"] = ok
    if not ok:
        ev["coverage"]["schema_error"] = msg
    tmp = path + ".tmp"
    with open(tmp, "w") as f:
        json.dump(ev, f, indent=1, default=repr)
    os.replace(tmp, path)
    return path, ok, msg


def validate_evidence(ev):
    try:
        import jsonschema
    except Exception as e:                      # pragma: no cover
        return True, f"jsonschema unavailable: {e}"
    for p in (SCHEMA, SCHEMA_LOCAL):
        if os.path.exists(p):
            with open(p) as f:
                schema = json.load(f)
            try:
                jsonschema.validate(json.loads(json.dumps(ev, default=repr)),
                                    schema)
                return True, ""
            except jsonschema.ValidationError as e:
                return False, str(e)[:300]
    return True, "schema file not found"
