"""pytest plugin: run the repository's own test-suite with the runtime
contracts of nv.contracts attached (python -m pytest -p nv.pytest_contracts).
"""
from nv import contracts


def pytest_configure(config):
    contracts.attach()


def pytest_sessionfinish(session, exitstatus):
    ev = {k: v for k, v in contracts.COUNTS.items()}
    print("\n[nv.contracts] evaluations:", ev)
    print("[nv.contracts] breaches:", contracts.BREACHES[:10])
