"""Dynamics harness: builds the real environment for a Spec, records every
reset / step / generative_step at the public boundary together with the
scripted draw, and pairs each observed transition with the reference model's
prediction.  Monitors (nv.dynmon) consume the resulting `Trans` records.
"""
import os
import tempfile

import numpy as np

from . import rngtap
from .layout import Layout
from .refmodel import Model
from .spec import describe_action, NOOP


class Trans:
    """One observed call of step / generative_step."""
    __slots__ = ("subj", "via", "arg_state", "pre", "post", "desc", "aidx",
                 "seed", "u", "words", "success", "info", "reward", "done",
                 "trunc", "obs", "obs_raw", "S", "P", "exp_success", "exp_S",
                 "exp_value", "gate", "extra", "hist", "raised", "ns_obj",
                 "steps_before", "steps_after", "on_current")

    def key(self):
        return (self.pre.tobytes(), self.desc["kind"], self.desc["name"],
                self.desc["target"], self.u is not None and
                self.u <= self.desc["prob"])

    def witness(self):
        return {
            "kind": "dyn", "spec": self.subj.spec.canonical(),
            "route": self.subj.route, "modes": self.subj.modes,
            "hist": [list(x) for x in self.hist],
            "op": [self.via, self.aidx, self.seed],
            "action": {k: v for k, v in self.desc.items()},
            "u": self.u,
            "observed": {"success": self.success, "reward": self.reward,
                         "done": self.done, "trunc": self.trunc,
                         "words": self.words,
                         "flags": None if self.info is None else
                         {k: self.info.get(k) for k in
                          ("success", "value", "connection_error",
                           "permission_error", "undefined_error")},
                         "raised": self.raised},
            "expected": {"success": self.exp_success, "gate": self.gate,
                         "value": self.exp_value},
            "pre_status": self.S, "post_status": self.P,
        }


class Subject:
    """The real environment for one Spec plus the independent decoders."""

    def __init__(self, spec, route="yaml", fully_obs=False, flat_actions=True,
                 flat_obs=True, scenario=None, keep_file=False,
                 render_mode=None):
        import nasim
        from nasim.envs import NASimEnv
        self.spec = spec
        self.route = route
        self.modes = {"fully_obs": fully_obs, "flat_actions": flat_actions,
                      "flat_obs": flat_obs}
        self.yaml_path = None
        if scenario is not None:
            self.scenario = scenario
        elif route == "yaml":
            fd, path = tempfile.mkstemp(suffix=".yaml", prefix="nv-")
            with os.fdopen(fd, "w") as f:
                f.write(spec.to_yaml_text())
            try:
                self.scenario = nasim.load_scenario(path, name=spec.name)
            finally:
                if keep_file:
                    self.yaml_path = path
                else:
                    os.unlink(path)
        else:
            self.scenario = spec.to_scenario()
        self.env = NASimEnv(self.scenario, fully_obs=fully_obs,
                            flat_actions=flat_actions, flat_obs=flat_obs,
                            render_mode=render_mode)
        if render_mode is not None:
            self.modes["render_mode"] = render_mode
        self.lay = Layout(spec)
        self.model = Model(spec)
        self.actions = list(self.env.action_space.actions)
        self.descs = [describe_action(spec, a) for a in self.actions]
        self.n_actions = len(self.actions)
        self.fp = spec.fingerprint()
        self.hist = ()              # (aidx, seed) since last reset
        self.step_calls = 0         # step() calls since last reset (boundary)
        self.shape2d = (len(spec.addrs) + 1, self.lay.width)
        # rows of env.host_num_map must follow spec order for the decoders
        self.row_order_ok = list(self.scenario.host_num_map.keys()) == \
            list(spec.addrs)

    # ------------------------------------------------------------------
    def reset(self, seed=None):
        np.random.seed(90210)
        st0 = np.random.get_state()
        if seed is None:
            out = self.env.reset()
        else:
            out = self.env.reset(seed=seed)
        st1 = np.random.get_state()
        # (position, key): did the reset draw from / re-seed NumPy's global
        # generator?
        self.reset_touched_rng = (st0[2] != st1[2]) or \
            (st0[1].tobytes() != st1[1].tobytes())
        self.reset_was_seeded = seed is not None
        self.hist = ()
        self.step_calls = 0
        return out

    def current(self):
        return self.env.current_state

    def obs2d(self, arr):
        a = np.asarray(arr)
        if a.shape != self.shape2d:
            a = a.reshape(self.shape2d)
        return a

    # ------------------------------------------------------------------
    def _mk(self, via, state, aidx, seed, desc=None):
        T = Trans()
        T.subj = self
        T.via = via
        T.aidx = aidx
        T.desc = desc if desc is not None else self.descs[aidx]
        T.seed = seed
        T.pre = state.tensor.copy()
        T.arg_state = state
        T.S = self.lay.status(T.pre)
        T.u = None
        T.raised = None
        T.trunc = None
        T.info = None
        T.success = None
        T.post = None
        T.P = None
        T.obs = None
        T.obs_raw = None
        T.reward = None
        T.done = None
        T.ns_obj = None
        T.words = None
        T.steps_before = self.env.steps
        T.on_current = state is self.env.current_state
        if seed is not None:
            T.u = rngtap.u_of(seed)
        return T

    def _finish(self, T):
        ok, S2, val, gate, extra = self.model.step(T.S, T.desc, T.u)
        T.exp_success, T.exp_S, T.exp_value, T.gate, T.extra = \
            ok, S2, val, gate, extra
        T.steps_after = self.env.steps
        return T

    def gen(self, state, aidx, seed, arg=None, hist=None, desc=None):
        """env.generative_step(state, action) under a scripted draw."""
        T = self._mk("gen", state, aidx, seed, desc)
        T.hist = self.hist if hist is None else hist
        action = self.actions[aidx] if arg is None else arg
        rngtap.arm(seed)
        try:
            ns, obs, rew, done, info = self.env.generative_step(state, action)
        except Exception as e:          # noqa
            T.raised = f"{type(e).__name__}: {e}"[:200]
            T.words = rngtap.words_consumed()
            return self._finish(T)
        T.words = rngtap.words_consumed()
        T.ns_obj = ns
        T.post = ns.tensor
        T.P = self.lay.status(T.post)
        T.obs = obs.tensor
        T.obs_raw = obs
        T.reward, T.done, T.info = rew, done, info
        T.success = info.get("success")
        return self._finish(T)

    def step(self, aidx, seed, arg=None, desc=None):
        """env.step(action) under a scripted draw."""
        state = self.env.current_state
        T = self._mk("step", state, aidx, seed, desc)
        T.hist = self.hist
        action = self.actions[aidx] if arg is None else arg
        rngtap.arm(seed)
        try:
            obs, rew, done, trunc, info = self.env.step(action)
        except Exception as e:          # noqa
            T.raised = f"{type(e).__name__}: {e}"[:200]
            T.words = rngtap.words_consumed()
            return self._finish(T)
        T.words = rngtap.words_consumed()
        self.step_calls += 1
        self.hist = self.hist + ((aidx, seed),)
        T.ns_obj = self.env.current_state
        T.post = T.ns_obj.tensor
        T.P = self.lay.status(T.post)
        T.obs_raw = obs
        T.obs = self.obs2d(obs)
        T.reward, T.done, T.trunc, T.info = rew, done, trunc, info
        T.success = info.get("success")
        return self._finish(T)

    def root_requiring(self, aidx, prob=None):
        """(Action object, descriptor) of flat action aidx re-built with
        req_access=ROOT (and, if given, another success probability) -
        Action objects are part of the step() interface."""
        from nasim.envs import action as A
        from nasim.envs.utils import AccessLevel
        d = dict(self.descs[aidx])
        a = self.actions[aidx]
        k = d["kind"]
        if prob is None:
            d["req_access"] = 2
            R = AccessLevel.ROOT
        else:
            R = AccessLevel.USER
            d["prob"] = prob

            class _P:       # the same action with another probability
                pass
            ap = _P()
            ap.__dict__.update(a.__dict__)
            ap.prob = prob
            a = ap
        if k == "exploit":
            obj = A.Exploit(a.name, a.target, a.cost, a.service, os=a.os,
                            access=a.access, prob=a.prob, req_access=R)
        elif k == "privesc":
            obj = A.PrivilegeEscalation(a.name, a.target, a.cost, a.access,
                                        process=a.process, os=a.os,
                                        prob=a.prob, req_access=R)
        else:
            cls = {"service_scan": A.ServiceScan, "os_scan": A.OSScan,
                   "subnet_scan": A.SubnetScan,
                   "process_scan": A.ProcessScan}[k]
            obj = cls(a.target, a.cost, prob=a.prob, req_access=R)
        return obj, d

    # ------------------------------------------------------------------
    def seed_for(self, aidx, succeed, rng=None, desc=None):
        d = desc or self.descs[aidx]
        return rngtap.seed_for(d["prob"], succeed, rng)[0]


# ----------------------------------------------------------------------
# Drivers (the "histories" quantifier)
class Policy:
    """Chooses the next flat action index from the model's point of view."""

    def __init__(self, subj, rng, kind="attacker"):
        self.s = subj
        self.rng = rng
        self.kind = kind
        self.by_target = {}
        for i, d in enumerate(subj.descs):
            self.by_target.setdefault(d["target"], []).append(i)

    def choose(self, S):
        rng, s = self.rng, self.s
        n = s.n_actions
        k = self.kind
        if k == "uniform" or rng.random() < 0.25:
            return rng.randrange(n)
        if k == "attacker" or (k == "mixed" and rng.random() < 0.5):
            # an action the model predicts to change the state
            for _ in range(40):
                i = rng.randrange(n)
                ok, S2, _v, _g, _e = s.model.step(S, s.descs[i], None)
                if ok and (S2[0] != S[0] or S2[1] != S[1] or S2[2] != S[2]
                           or S2[3] != S[3]):
                    return i
            return rng.randrange(n)
        # adversarial: prefer actions the model predicts to be blocked by a
        # network gate, re-exploits, downgrades, repeated scans
        want = rng.choice(["unreach", "nopivot", "fwblock", "noaccess",
                           "hostcfg", "reexploit", "rooted", "rescan"])
        comp, acc, reach, disc = S
        if want in ("nopivot", "fwblock", "hostcfg") and rng.random() < 0.6:
            # look at every action: these gates are rare in random picks
            cands = []
            for i, d in enumerate(s.descs):
                if d["kind"] not in ("exploit", "privesc"):
                    continue
                _ok, _S2, _v, g, _e = s.model.step(S, d, None)
                if g == want:
                    cands.append(i)
            if cands:
                return rng.choice(cands)
        for _ in range(60):
            i = rng.randrange(n)
            d = s.descs[i]
            ti = s.model.row[d["target"]]
            if want == "reexploit":
                if d["kind"] == "exploit" and comp[ti]:
                    return i
                continue
            if want == "rooted":
                if d["kind"] in ("exploit", "privesc") and acc[ti] == 2:
                    return i
                continue
            if want == "rescan":
                if d["kind"] == "subnet_scan" and comp[ti]:
                    return i
                continue
            _ok, _S2, _v, g, _e = s.model.step(S, d, None)
            if g == want:
                return i
        return rng.randrange(n)


def random_arg(subj, aidx, rng):
    """The same action in one of the accepted representations."""
    if not subj.modes["flat_actions"]:
        if rng.random() < 0.6:
            from .paramspace import vector_for
            v = vector_for(subj.spec, subj.descs[aidx], rng)
            if v is not None:
                r = rng.random()
                return v if r < 0.5 else (tuple(v) if r < 0.75 else
                                          np.array(v, dtype=np.int64))
        return subj.actions[aidx]
    r = rng.random()
    if r < 0.4:
        return subj.actions[aidx]
    if r < 0.6:
        return int(aidx)
    if r < 0.8:
        return np.int64(aidx)
    if r < 0.9:
        return np.int32(aidx)
    return np.array(aidx, dtype=np.int64)


def bfs(subj, on_trans, max_states=3000, both_draws=True, rng=None,
        max_trans=None, reset=True):
    """Breadth-first exploration of every state reachable from reset, every
    action, both draw outcomes, through generative_step.  Returns
    (n_states, n_transitions, complete)."""
    if reset:
        subj.reset()
    init = subj.current()
    seen = {init.tensor.tobytes(): ()}
    frontier = [(init, ())]
    ntrans = 0
    complete = True
    while frontier:
        nxt = []
        for state, hist in frontier:
            for i, d in enumerate(subj.descs):
                sides = (True, False) if (both_draws and d["kind"] in
                                          ("exploit", "privesc")) \
                    else ((rng.random() < 0.5,) if rng else (True,))
                for side in sides:
                    seed = subj.seed_for(i, side)
                    T = subj.gen(state, i, seed, hist=hist)
                    ntrans += 1
                    on_trans(T)
                    if T.post is None:
                        continue
                    kb = T.post.tobytes()
                    if kb not in seen:
                        if len(seen) >= max_states:
                            complete = False
                            continue
                        h2 = hist + ((i, seed),)
                        seen[kb] = h2
                        nxt.append((T.ns_obj, h2))
                if max_trans and ntrans >= max_trans:
                    return len(seen), ntrans, False
        frontier = nxt
    return len(seen), ntrans, complete
