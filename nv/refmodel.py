"""Executable reference semantics of the NASim dynamics (C01-C08).

Written from the property statements and the documentation; imports nothing
from nasim.  State = four integer lists (compromised, access, reachable,
discovered) indexed by host row (order of spec.addrs).
"""
from .spec import (NOOP, SRV_SCAN, OS_SCAN, SUB_SCAN, PROC_SCAN, EXPLOIT,
                   PRIVESC)

G_NOOP, G_UNREACH, G_NOPIVOT, G_FWBLOCK, G_NOACCESS, G_HOSTCFG, G_CHANCE, \
    G_OK = ("noop", "unreach", "nopivot", "fwblock", "noaccess", "hostcfg",
            "chance", "ok")
NETWORK_GATES = (G_UNREACH, G_NOPIVOT, G_FWBLOCK, G_NOACCESS)


class Model:
    def __init__(self, spec):
        self.sp = spec
        self.addrs = spec.addrs
        self.row = {a: i for i, a in enumerate(spec.addrs)}
        self.n = len(spec.addrs)

    # ------------------------------------------------------------------
    def initial(self):
        sp = self.sp
        pub = [1 if sp.public[a[0]] else 0 for a in self.addrs]
        return ([0] * self.n, [0] * self.n, list(pub), list(pub))

    def invariant_reach(self, comp):
        """reachable(h) = public(sub h) or some compromised g with
        connected(sub g, sub h)."""
        sp = self.sp
        comp_subs = {self.addrs[i][0] for i in range(self.n) if comp[i]}
        out = []
        for a in self.addrs:
            r = sp.public[a[0]] or any(sp.conn[s][a[0]] for s in comp_subs)
            out.append(1 if r else 0)
        return out

    # ------------------------------------------------------------------
    def subnet_rule_allows(self, src, dst, service):
        """subnet firewall in direction src -> dst (same subnet: always)."""
        sp = self.sp
        if src == dst:
            return True
        if not sp.conn[src][dst]:
            return False
        return service in sp.fw_sets.get((src, dst), frozenset())

    def exploit_sources(self, S, d):
        """All attacker-controlled positions from which the exploit's service
        reaches the target through both firewall layers.  Returns a list of
        ('internet',) / ('host', addr, same_subnet)."""
        sp = self.sp
        comp = S[0]
        t = d["target"]
        svc = d["service"]
        out = []
        if sp.public[t[0]] and self.subnet_rule_allows(0, t[0], svc):
            out.append(("internet",))
        deny = sp.deny.get(t, {})
        for i, a in enumerate(self.addrs):
            if not comp[i]:
                continue
            if not self.subnet_rule_allows(a[0], t[0], svc):
                continue
            if svc in deny.get(a, frozenset()):
                continue
            out.append(("host", a, a[0] == t[0]))
        return out

    def has_pivot(self, S, d):
        """remote action on a non-public subnet: a compromised host with the
        required access whose subnet is connected to the target's (exploit:
        whose rule towards the target subnet allows the service)."""
        sp = self.sp
        comp, acc = S[0], S[1]
        t = d["target"]
        if sp.public[t[0]]:
            return True
        for i, a in enumerate(self.addrs):
            if not comp[i] or acc[i] < d["req_access"]:
                continue
            if d["kind"] == EXPLOIT:
                if self.subnet_rule_allows(a[0], t[0], d["service"]):
                    return True
            elif sp.conn[a[0]][t[0]]:
                return True
        return False

    def host_preconditions(self, S, d):
        sp = self.sp
        h = sp.hosts[d["target"]]
        if d["kind"] == EXPLOIT:
            return d["service"] in h["services"] and \
                (d["os"] is None or d["os"] == h["os"])
        if d["kind"] == PRIVESC:
            return (d["process"] is None or d["process"] in h["processes"]) \
                and (d["os"] is None or d["os"] == h["os"])
        return True

    # ------------------------------------------------------------------
    def step(self, S, d, u):
        """-> (success, S', value, gate, extra)
        u: the uniform draw (float) or None (treated as a succeeding draw).
        extra: dict with 'sources' (exploits), 'newly' (subnet scans),
        'draw_relevant' (True iff the outcome depends on u)."""
        sp = self.sp
        comp, acc, reach, disc = S
        kind = d["kind"]
        extra = {"draw_relevant": False}
        if kind == NOOP:
            return True, S, 0.0, G_NOOP, extra
        t = d["target"]
        ti = self.row[t]
        if not (disc[ti] and reach[ti]):
            return False, S, 0.0, G_UNREACH, extra
        if kind in (SRV_SCAN, OS_SCAN, EXPLOIT):
            if not self.has_pivot(S, d):
                return False, S, 0.0, G_NOPIVOT, extra
        if kind == EXPLOIT:
            srcs = self.exploit_sources(S, d)
            extra["sources"] = srcs
            if not srcs:
                return False, S, 0.0, G_FWBLOCK, extra
        if kind in (SUB_SCAN, PROC_SCAN, PRIVESC):
            if not (comp[ti] and acc[ti] >= d["req_access"]):
                return False, S, 0.0, G_NOACCESS, extra
        if not self.host_preconditions(S, d):
            return False, S, 0.0, G_HOSTCFG, extra
        # chance
        exempt = kind == EXPLOIT and comp[ti]
        if not exempt:
            extra["draw_relevant"] = True
            if u is not None and u > d["prob"]:
                return False, S, 0.0, G_CHANCE, extra
        # effects
        if kind in (SRV_SCAN, OS_SCAN, PROC_SCAN):
            return True, S, 0.0, G_OK, extra
        if kind == SUB_SCAN:
            ndisc = list(disc)
            newly = []
            val = 0.0
            for i, a in enumerate(self.addrs):
                if sp.conn[t[0]][a[0]] and not disc[i]:
                    ndisc[i] = 1
                    newly.append(a)
                    val += float(sp.hosts[a]["discovery_value"])
            extra["newly"] = newly
            extra["scanned"] = [a for a in self.addrs if sp.conn[t[0]][a[0]]]
            return True, (comp, acc, reach, ndisc), val, G_OK, extra
        # exploit / privesc
        ncomp, nacc, nreach = list(comp), list(acc), list(reach)
        val = 0.0
        nacc[ti] = max(acc[ti], d["access"])
        if nacc[ti] == 2 and acc[ti] < 2:
            val = sp.host_value(t)
        if kind == EXPLOIT:
            ncomp[ti] = 1
            for i, a in enumerate(self.addrs):
                if sp.conn[t[0]][a[0]]:
                    nreach[i] = 1
        return True, (ncomp, nacc, nreach, disc), val, G_OK, extra

    def goal(self, S):
        acc = S[1]
        return all(acc[self.row[a]] >= 2 for a in self.sp.sensitive)

    # ------------------------------------------------------------------
    def closure_plan(self, start=None):
        """Monotone attack closure with every draw succeeding.  Returns
        (plan, reached_goal): plan is a list of descriptors."""
        from .spec import flat_descriptors
        S = start or self.initial()
        descs = [d for d in flat_descriptors(self.sp)
                 if d["kind"] in (EXPLOIT, PRIVESC, SUB_SCAN)]
        plan = []
        changed = True
        while changed and not self.goal(S):
            changed = False
            for d in descs:
                ok, S2, _v, _g, _e = self.step(S, d, None)
                if ok and S2 != S and any(x != y for x, y in zip(S2, S)):
                    S = S2
                    plan.append(d)
                    changed = True
                    if self.goal(S):
                        break
        return plan, self.goal(S), S
