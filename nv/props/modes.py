"""C12: the eight mode combinations of one scenario, fed the same seed and the
same abstract action sequence, must produce identical trajectories of state,
reward, terminal flag, step-limit flag and info (differential monitor)."""
import itertools

import numpy as np

from .. import corpus, synth
from ..harness import Subject, Policy
from ..spec import (EXPLOIT, PRIVESC, SCAN_KINDS, SRV_SCAN, OS_SCAN, SUB_SCAN,
                    PROC_SCAN)
from ..verdict import Acc
from .api import make_source
from ..paramspace import decode_vector, vector_for

SIZES = {"quick": dict(n_synth=110, n_gen=16, steps=200, seeds=1),
         "thorough": dict(n_synth=4000, n_gen=600, steps=600, seeds=2)}
MODES = list(itertools.product([False, True], repeat=3))


def norm_info(info):
    out = {}
    for k, v in info.items():
        if isinstance(v, dict):
            out[k] = tuple(sorted((str(kk), float(vv)) for kk, vv in
                                  v.items()))
        elif isinstance(v, (bool, np.bool_)):
            out[k] = bool(v)
        else:
            out[k] = float(v)
    return out


def run_traj(subj, sp, plan, seed, lock=None, obs_out=None):
    """Execute the abstract plan; returns list of per-step records."""
    env = subj.env
    flat = subj.modes["flat_actions"]
    np.random.seed(seed)
    env.reset()
    rec = []
    arrays = {}
    for op in plan:
        if op[0] == "reset":
            env.reset()
            rec.append(("reset", env.current_state.tensor.tobytes()))
            continue
        _, i, vec = op
        if len(rec) % 4 == 1:
            # what an exploring agent does between its steps: ask the action
            # space for a sample (the space has its own generator; the draw
            # deciding the next step must not move)
            env.action_space.sample()
        if flat:
            arg = int(i)
        elif i % 3 == 0:
            arg = vec                   # a Python list
        else:
            # one int64 array per action, re-used every time the action is
            # taken (what an agent replaying stored actions does)
            arg = arrays.setdefault(i, np.array(vec, dtype=np.int64))
        try:
            o, r, term, trunc, info = env.step(arg)
        except Exception as e:      # noqa  a mode that raises has diverged
            rec.append((env.current_state.tensor.tobytes(), 0.0, False,
                        False, {"raised": type(e).__name__,
                                "success": False,
                                "undefined_error": False}))
            if obs_out is not None:
                obs_out.append(np.zeros((len(sp.addrs) + 1) *
                                        subj.lay.width, dtype=np.float32))
            continue
        rec.append((env.current_state.tensor.tobytes(), float(r), bool(term),
                    bool(trunc), norm_info(info)))
        if obs_out is not None:
            obs_out.append(np.array(o, copy=True))
    return rec


def run_lookahead(subj, sp, plan, seed):
    """The same plan as a look-ahead roll-out: generative_step from state to
    state while the environment itself stays where reset() left it."""
    env = subj.env
    flat = subj.modes["flat_actions"]
    np.random.seed(seed)
    env.reset()
    s = env.current_state.copy()
    rec = []
    for op in plan:
        if op[0] == "reset":
            s = env.current_state.copy()
            rec.append(("restart",))
            continue
        _, i, vec = op
        arg = int(i) if flat else (vec if i % 2 else np.array(vec))
        try:
            s, o, r, done, info = env.generative_step(s, arg)
        except Exception as e:      # noqa  a mode that raises has diverged
            rec.append((s.tensor.tobytes(), 0.0, False,
                        {"raised": type(e).__name__}))
            continue
        rec.append((s.tensor.tobytes(), float(r), bool(done),
                    norm_info(info)))
    return rec


def case(acc, sp, kw, rng, tier, seed_base):
    z = SIZES[tier]
    pilot = Subject(sp, fully_obs=False, flat_actions=True, flat_obs=True,
                    **kw)
    scenario = pilot.scenario
    vecs = [vector_for(sp, d, rng) for d in pilot.descs]
    expressible = [i for i, v in enumerate(vecs) if v is not None]
    acc.count("flat_actions_not_expressible_in_param_space",
              len(vecs) - len(expressible))
    if not expressible:
        return
    exset = set(expressible)
    for sd in range(z["seeds"]):
        seed = (seed_base + 7919 * sd) % (2 ** 31)
        # ---- pilot run: choose the abstract sequence online
        np.random.seed(seed)
        pilot.reset()
        pol = Policy(pilot, rng, rng.choice(["attacker", "adversarial",
                                             "mixed"]))
        plan = []
        p_reset = rng.choice([0.0, 0.01])
        for k in range(z["steps"]):
            S = pilot.lay.status(pilot.current().tensor)
            for _ in range(20):
                i = pol.choose(S)
                if i in exset:
                    break
            else:
                i = rng.choice(expressible)
            plan.append(("act", i, vecs[i]))
            o, r, term, trunc, info = pilot.env.step(int(i))
            if rng.random() < p_reset or ((term or trunc)
                                          and rng.random() < 0.5):
                plan.append(("reset",))
                pilot.env.reset()
        # ---- the eight trajectories, one after another
        ref = None
        all_obs = {}
        fresh = rng.random() < 0.3
        for m in MODES:
            modes = dict(fully_obs=m[0], flat_actions=m[1], flat_obs=m[2])
            k2 = dict(kw)
            if not (fresh and kw.get("route") in ("yaml", "dict")):
                k2["scenario"] = scenario
            subj = Subject(sp, **modes, **k2)
            obs_m = []
            rec = run_traj(subj, sp, plan, seed, obs_out=obs_m)
            all_obs[m] = obs_m
            acc.evaluations += 1
            if ref is None:
                ref, ref_modes = rec, modes
                continue
            if rec != ref:
                k = next(j for j in range(len(ref)) if rec[j] != ref[j])
                a, b = ref[k], rec[k]
                if a[0] == "reset" or b[0] == "reset":
                    what = ["state after reset"]
                else:
                    what = [n for n, x, y in zip(
                        ("state", "reward", "terminated", "truncated",
                         "info"), a, b) if x != y]
                acc.violation(
                    "modes_change_dynamics",
                    "modes_change_dynamics:" + "+".join(what),
                    {"step": k, "differs_in": what, "modes_a": ref_modes,
                     "modes_b": modes,
                     "a": a[1:] if a[0] != "reset" else "reset",
                     "b": b[1:] if b[0] != "reset" else "reset",
                     "action": plan[k] if k < len(plan) else None},
                    {"kind": "modes", "spec": sp.canonical(),
                     "route": kw.get("route"), "seed": seed,
                     "plan": [list(p) for p in plan[:k + 1]],
                     "modes_a": ref_modes, "modes_b": modes})
                break
        # observations may differ between modes only in content (full vs
        # masked) and shape: same observability => same content whatever the
        # action space or array shape; masked entries are either 0 or equal
        # to the fully observable ones
        shape2d = (len(sp.addrs) + 1, pilot.lay.width)
        if len(all_obs) == len(MODES) and all(
                len(v) == len(all_obs[MODES[0]]) for v in all_obs.values()):
            for k in range(len(all_obs[MODES[0]])):
                acc.evaluations += 1
                full = [all_obs[m][k].reshape(shape2d) for m in MODES if m[0]]
                part = [all_obs[m][k].reshape(shape2d) for m in MODES
                        if not m[0]]
                bad = None
                if any(not np.array_equal(x, full[0]) for x in full[1:]) or \
                        any(not np.array_equal(x, part[0]) for x in part[1:]):
                    bad = "content depends on action space or array shape"
                else:
                    nz = part[0] != 0
                    if np.any(part[0][nz] != full[0][nz]):
                        bad = "masked observation contradicts the full one"
                if bad:
                    acc.violation("observation_relation",
                                  "observation_relation", {"step": k,
                                                           "what": bad},
                                  {"kind": "modes", "spec": sp.canonical(),
                                   "route": kw.get("route"), "seed": seed,
                                   "plan": [list(p) for p in plan[:k + 1]],
                                   "modes_a": dict(fully_obs=True,
                                                   flat_actions=True,
                                                   flat_obs=True),
                                   "modes_b": dict(fully_obs=False,
                                                   flat_actions=True,
                                                   flat_obs=True)})
                    break
            acc.count("observation_sets_compared",
                      len(all_obs[MODES[0]]))
        # ---- the plan as a look-ahead roll-out (generative_step on states
        # other than the environment's own) under the eight modes
        if rng.random() < 0.6:
            ref_la = None
            for m in MODES:
                modes = dict(fully_obs=m[0], flat_actions=m[1],
                             flat_obs=m[2])
                subj = Subject(sp, scenario=scenario, route=kw.get("route"),
                               **modes)
                rec = run_lookahead(subj, sp, plan, seed)
                acc.evaluations += 1
                if ref_la is None:
                    ref_la, la_modes = rec, modes
                    continue
                if rec != ref_la:
                    k = next(j for j in range(len(ref_la))
                             if rec[j] != ref_la[j])
                    acc.violation(
                        "modes_change_dynamics",
                        "modes_change_dynamics:lookahead",
                        {"step": k, "modes_a": la_modes, "modes_b": modes,
                         "a": ref_la[k][1:], "b": rec[k][1:],
                         "action": plan[k]},
                        {"kind": "modes", "spec": sp.canonical(),
                         "route": kw.get("route"), "seed": seed,
                         "lookahead": True,
                         "plan": [list(p) for p in plan[:k + 1]],
                         "modes_a": la_modes, "modes_b": modes})
                    break
            acc.count("lookahead_rollouts_compared", 7)
            if any(len(r) > 1 and r[1] > 0 for r in ref_la):
                acc.count("lookahead_rollouts_with_gains")
        steps = [r for r in ref if r[0] != "reset"]
        n_succ = sum(1 for r in steps if r[4]["success"])
        n_chance = sum(1 for r in steps if r[4]["undefined_error"])
        n_change = sum(1 for a, b in zip(ref, ref[1:])
                       if a[0] != b[0])
        acc.count("trajectories_compared", 7)
        acc.count("chance_failures_in_reference", n_chance)
        if n_succ and n_chance and n_change:
            acc.nontrivial(pilot.fp, "traj", seed, len(plan))
            acc.count("nontrivial_sequences")
        if any(r[3] for r in steps):
            acc.count("sequences_reaching_step_limit")
        if any(r[2] for r in steps):
            acc.count("sequences_reaching_goal")
        # ---- lock-step: all eight advance together, sharing the draws
        if rng.random() < 0.5:
            subs = [Subject(sp, fully_obs=m[0], flat_actions=m[1],
                            flat_obs=m[2], scenario=scenario,
                            route=kw.get("route")) for m in MODES]
            np.random.seed(seed)
            for s in subs:
                s.env.reset()
            st = np.random.get_state()
            for k, op in enumerate(plan):
                outs = []
                for s in subs:
                    np.random.set_state(st)
                    if op[0] == "reset":
                        s.env.reset()
                        outs.append(("reset",
                                     s.env.current_state.tensor.tobytes()))
                    else:
                        arg = int(op[1]) if s.modes["flat_actions"] \
                            else op[2]
                        o, r, term, trunc, info = s.env.step(arg)
                        outs.append((s.env.current_state.tensor.tobytes(),
                                     float(r), bool(term), bool(trunc),
                                     norm_info(info)))
                st = np.random.get_state()
                acc.evaluations += 1
                if any(o != outs[0] for o in outs[1:]):
                    j = next(j for j, o in enumerate(outs) if o != outs[0])
                    acc.violation(
                        "modes_change_dynamics",
                        "modes_change_dynamics:lockstep",
                        {"step": k, "modes_b": subs[j].modes},
                        {"kind": "modes", "spec": sp.canonical(),
                         "route": kw.get("route"), "seed": seed,
                         "plan": [list(p) for p in plan[:k + 1]],
                         "modes_a": subs[0].modes, "modes_b": subs[j].modes})
                    break
            acc.count("lockstep_runs")
    if len(acc.samples) < 3:
        acc.sample({"scenario": sp.summary(), "seed": seed,
                    "plan_head": [list(p) for p in plan[:6]],
                    "steps": len(plan), "successes": n_succ,
                    "chance_failures": n_chance})


def build_cases(tier):
    z = SIZES[tier]
    cases = [("synth", i) for i in range(z["n_synth"])]
    cases += [("shipped", n) for n in corpus.SHIPPED]
    cases += [("gen", i) for i in range(z["n_gen"])]
    cases += [("benchgen", n) for n in corpus.GENERATED[:6]]
    return cases


def run(prop, tier, seed, shard, nshards):
    acc = Acc(prop)
    cases = build_cases(tier)
    for ci in corpus.shard_range(len(cases), shard, nshards):
        ctype, cid = cases[ci]
        rng = corpus.case_rng(seed, prop, ctype, cid)
        try:
            sp, kw = make_source(ctype, cid, rng, tier)
        except Exception as e:      # noqa
            acc.count("source_failed:" + type(e).__name__)
            continue
        try:
            case(acc, sp, kw, rng, tier, rng.randrange(2 ** 31))
            if kw.get("route") in ("yaml", "dict") and rng.random() < 0.3:
                from ..twins import any_twin
                case(acc, any_twin(sp, rng), kw, rng, tier,
                     rng.randrange(2 ** 31))
                acc.count("twin_scenarios_right_after_original")
        except Exception as e:      # noqa
            import traceback
            acc.inconclusive.append(
                f"case {ctype}:{cid} harness error {type(e).__name__}: {e} "
                + traceback.format_exc(limit=4)[-400:])
            continue
        acc.count(f"cases:{ctype}")
    return acc.result()


def replay(prop, path):
    import json
    from ..spec import spec_from_canonical
    with open(path) as f:
        doc = json.load(f)
    w = doc["violation"]["witness"]
    sp = spec_from_canonical(w["spec"])
    route = w.get("route") if w.get("route") in ("yaml", "dict") else "dict"
    plan = [tuple(p) for p in w["plan"]]
    fn = run_lookahead if w.get("lookahead") else run_traj
    A = Subject(sp, route=route, **w["modes_a"])
    ra = fn(A, sp, plan, w["seed"])
    B = Subject(sp, route=route, scenario=A.scenario, **w["modes_b"])
    rb = fn(B, sp, plan, w["seed"])
    if ra != rb:
        print(f"VIOLATION property={prop} replay={path}")
        return 1
    print(f"replay of {path}: property {prop} held")
    return 0
