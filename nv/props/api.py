"""API-level monitors: C09 (documented layout), C10 (Gymnasium contract),
C11 (action spaces).  The real environment is built for many scenarios and
every array / action / mask it hands out is compared with an independent
decoder or enumeration."""
import itertools
import numbers

import numpy as np

from .. import corpus, synth
from ..harness import Subject, Policy
from ..layout import Layout
from ..spec import (flat_descriptors, scan_desc, exploit_desc, privesc_desc,
                    noop_desc, spec_from_scenario, NOOP, EXPLOIT, PRIVESC,
                    SRV_SCAN, OS_SCAN, SUB_SCAN, PROC_SCAN, SCAN_KINDS)
from ..verdict import Acc
from ..paramspace import decode_vector

SIZES = {"quick": dict(n_synth=60, n_gen=24, steps=60, samples=300,
                       vec_cap=40000),
         "thorough": dict(n_synth=6000, n_gen=1600, steps=200, samples=1500,
                          vec_cap=300000)}
MODES = list(itertools.product([False, True], repeat=3))


def build_cases(tier):
    z = SIZES[tier]
    cases = [("synth", i) for i in range(z["n_synth"])]
    cases += [("shipped", n) for n in corpus.SHIPPED]
    cases += [("gen", i) for i in range(z["n_gen"])]
    cases += [("benchgen", n) for n in corpus.GENERATED]
    return cases


def gen_params(rng, tier, big=False):
    """nasim generator parameters with custom (larger) address bounds and many
    OS / services / processes."""
    num_hosts = rng.choice([3, 4, 5, 8, 9, 12, 16, 23] +
                           ([41, 42, 60] if tier == "thorough" else []))
    if big or rng.random() < 0.04:
        # > 200 hosts: the DMZ subnet (ceil(n/40) hosts) is larger than the
        # five-host user subnets
        num_hosts = rng.choice([201, 215, 241])
    p = dict(num_hosts=num_hosts, num_services=rng.randint(1, 12),
             num_os=rng.randint(1, 4), num_processes=rng.randint(1, 4),
             restrictiveness=rng.randint(1, 5),
             seed=rng.randrange(10 ** 6),
             exploit_probs=rng.choice([1.0, 0.7, "mixed", None]),
             r_sensitive=rng.choice([10, 100, 7.5]),
             r_user=rng.choice([10, 100, 2.5]),
             base_host_value=rng.choice([1, 0, -3, 0.5]),
             host_discovery_value=rng.choice([1, 0, 2.5, 40]),
             step_limit=rng.choice([None, 50, 1000]))
    p["uniform"] = rng.random() < 0.3 and p["num_services"] <= 8
    if rng.random() < 0.6:
        import math
        nsub_guess = 4 + math.ceil(max(0, num_hosts - 3) / 5) + 1
        p["address_space_bounds"] = (nsub_guess + rng.randint(0, 4),
                                     5 + rng.randint(0, 4))
    return p


def make_source(ctype, cid, rng, tier):
    """-> (spec, kwargs for Subject)"""
    import nasim
    if ctype == "synth":
        sp = synth.synth(rng, tier)
        plain = [a for a in sp.addrs if a not in sp.sensitive]
        if plain and rng.random() < 0.2:
            # an ordinary host worth more than every sensitive one (and than
            # every other number that appears in an observation)
            sp.hosts[rng.choice(plain)]["value"] = rng.choice(
                [150.0, 1000.5, 33554432.0])
            sp._derive()
        return sp, dict(route=sp.origin.split(":")[1])
    if ctype == "shipped":
        return corpus.shipped_spec(cid), dict(route="yaml")
    if ctype == "benchgen":
        sp, sc = corpus.generated_case(cid, rng.randrange(1000))
        return sp, dict(route="nasim-generator", scenario=sc)
    p = gen_params(rng, tier, big=(cid % 8 == 0))
    try:
        sc = nasim.generate_scenario(**p)
    except AssertionError:
        p.pop("address_space_bounds", None)
        sc = nasim.generate_scenario(**p)
    sp = spec_from_scenario(sc, name=f"gen-{cid}", origin=f"generator:{cid}")
    return sp, dict(route="nasim-generator", scenario=sc)


def wit(sp, kw, modes, what):
    return {"kind": "api", "spec": sp.canonical(), "route": kw.get("route"),
            "modes": modes, "what": what}


# ======================================================================
# C09
def readable_of(lay, row):
    d = lay.decode_row(row)
    out = {"Address": d["address"], "Compromised": bool(d["compromised"]),
           "Reachable": bool(d["reachable"]),
           "Discovered": bool(d["discovered"]), "Value": d["value"],
           "Discovery Value": d["discovery_value"], "Access": d["access"]}
    for k in ("os", "services", "processes"):
        for n, v in d[k].items():
            out[n] = bool(v)
    return out


def readable_equal(mine, theirs):
    if set(mine) != set(theirs):
        return False
    for k, v in mine.items():
        t = theirs[k]
        if k == "Address":
            if (int(t[0]), int(t[1])) != v:
                return False
        elif isinstance(v, bool):
            if bool(t) != v or not isinstance(t, (bool, np.bool_)):
                return False
        elif float(t) != float(v):
            return False
    return True


def c09_case(acc, sp, kw, rng, tier, twin=False):
    from nasim.envs.state import State
    from nasim.envs.observation import Observation
    z = SIZES[tier]
    fully = rng.random() < 0.5
    A = Subject(sp, fully_obs=fully, flat_actions=True, flat_obs=True, **kw)
    lay = A.lay
    modesA = A.modes
    W = lambda what: wit(sp, kw, modesA, what)     # noqa
    obsA, _ = A.reset()
    t = A.current().tensor
    acc.evaluations += 1
    # documented width and initial content
    want_w = lay.b0 + lay.b1 + 6 + len(sp.os) + len(sp.services) + \
        len(sp.processes)
    if t.shape != (len(sp.addrs), want_w):
        acc.violation("row_width", "row_width",
                      {"shape": t.shape, "documented": (len(sp.addrs),
                                                        want_w)},
                      W("shape"))
        return
    enc = lay.encode_initial()
    if not np.array_equal(t, enc):
        acc.violation("initial_state_layout", "initial_state_layout",
                      {"cells": np.argwhere(t != enc).tolist()[:10]},
                      W("initial tensor != documented encoding"))
    for i, a in enumerate(sp.addrs):
        try:
            d = lay.decode_row(t[i])
        except ValueError as e:
            acc.violation("decode_failed", "decode_failed", str(e),
                          W("decode"))
            continue
        h = sp.hosts[a]
        ok = (d["address"] == a and d["value"] == np.float32(sp.host_value(a))
              and d["discovery_value"] == np.float32(h["discovery_value"])
              and [o for o, v in d["os"].items() if v] == [h["os"]]
              and {s for s, v in d["services"].items() if v} ==
              set(h["services"])
              and {p for p, v in d["processes"].items() if v} ==
              set(h["processes"])
              and d["compromised"] == 0 and d["access"] == 0
              and d["reachable"] == d["discovered"] ==
              (1.0 if sp.public[a[0]] else 0.0))
        acc.evaluations += 1
        if not ok:
            acc.violation("host_definition_not_reproduced",
                          "host_definition_not_reproduced",
                          {"row": i, "decoded": d, "host": h}, W("decode"))
    acc.count("layouts_checked")
    acc.nontrivial("layout", lay.key())
    if sp.bounds and (sp.bounds[0] > len(sp.subnets)
                      or sp.bounds[1] > max(sp.subnets)):
        acc.count("custom_larger_bounds")
    # twin environment with 2D observations, same scenario object
    B = Subject(sp, fully_obs=fully, flat_actions=True, flat_obs=False,
                scenario=A.scenario, route=kw.get("route"))
    obsB, _ = B.reset()
    pol = Policy(A, rng, "attacker")
    shape_state = t.shape

    def check_obs(o1, o2, envA, info, what):
        acc.evaluations += 1
        if o1.ndim != 1 or o2.ndim != 2 or \
                o2.shape != (shape_state[0] + 1, shape_state[1]):
            acc.violation("obs_shape", "obs_shape",
                          {"1d": o1.shape, "2d": o2.shape}, W(what))
            return
        if not np.array_equal(o1, o2.reshape(-1)) or \
                not np.array_equal(o1.reshape(o2.shape), o2):
            acc.violation("flat_not_row_major", "flat_not_row_major",
                          {"cells": np.argwhere(o1.reshape(o2.shape) != o2)
                           .tolist()[:8]}, W(what))
        if not np.array_equal(envA.last_obs.numpy().reshape(-1), o1):
            acc.violation("last_obs_mismatch", "last_obs_mismatch", {},
                          W(what))
        aux = o2[-1]
        if info is not None:
            flags = [float(bool(info[k])) for k in
                     ("success", "connection_error", "permission_error",
                      "undefined_error")]
            if aux[:4].tolist() != flags or np.any(aux[4:] != 0):
                acc.violation("aux_row_layout", "aux_row_layout",
                              {"aux": aux.tolist(), "flags": flags}, W(what))
        elif np.any(aux != 0):
            acc.violation("aux_row_layout", "aux_row_layout",
                          {"aux": aux.tolist()}, W(what))
        # from-array constructors and readable decoders
        o_back = Observation.from_numpy(o1.copy(), shape_state)
        if not np.array_equal(o_back.numpy(), o2) or \
                not np.array_equal(o_back.numpy_flat(), o1):
            acc.violation("obs_from_numpy_roundtrip",
                          "obs_from_numpy_roundtrip", {}, W(what))
        # the same content in another memory layout (column-major 2D array,
        # non-contiguous view): still the same observation
        for label, arr in (("fortran", np.asfortranarray(o2)),
                           ("strided", np.repeat(o2, 2, axis=1)[:, ::2])):
            ob = Observation.from_numpy(arr, shape_state)
            if not np.array_equal(ob.numpy(), o2) or \
                    not np.array_equal(ob.numpy_flat(), o1):
                acc.violation("obs_from_numpy_roundtrip",
                              "obs_from_numpy_roundtrip:" + label, {},
                              W(what))
        hosts_r, aux_r = o_back.get_readable()
        mine_aux = {"Success": bool(aux[0]), "Connection Error": bool(aux[1]),
                    "Permission Error": bool(aux[2]),
                    "Undefined Error": bool(aux[3])}
        if aux_r != mine_aux:
            acc.violation("obs_readable_aux", "obs_readable_aux",
                          {"got": aux_r, "want": mine_aux}, W(what))
        for i in range(shape_state[0]):
            row = o2[i]
            # every entry of a host row is a documented value: one-hot
            # address (or all zero when the row is not observed), 0/1 flags,
            # access 0/1/2, 0/1 OS / service / process flags
            bad_cell = None
            for sl in (lay.sub, lay.host):
                seg = row[sl]
                if not (np.all((seg == 0) | (seg == 1)) and seg.sum() <= 1):
                    bad_cell = "address one-hot"
            for c in (lay.COMP, lay.REACH, lay.DISC):
                if row[c] not in (0.0, 1.0):
                    bad_cell = f"flag column {c}"
            if row[lay.ACCESS] not in (0.0, 1.0, 2.0):
                bad_cell = "access"
            for sl in (lay.os, lay.srv, lay.proc):
                if not np.all((row[sl] == 0) | (row[sl] == 1)):
                    bad_cell = "os/service/process flag"
            if bad_cell:
                acc.violation("obs_row_not_in_layout", "obs_row_not_in_layout",
                              {"row": i, "what": bad_cell,
                               "values": row.tolist()}, W(what))
                break
            if not row[lay.sub].any() or not row[lay.host].any():
                continue        # unobserved row: address undefined
            # an observed row is the host's row of the state with some
            # columns blanked: whatever a column shows is what the same
            # column of the state holds (value in the value column, discovery
            # value in the discovery-value column, ...)
            srow = envA.current_state.tensor[i]
            shown = row != 0
            if np.any(row[shown] != srow[shown]):
                c = int(np.flatnonzero(shown & (row != srow))[0])
                acc.violation("obs_column_holds_other_field",
                              "obs_column_holds_other_field",
                              {"row": i, "column": c,
                               "column_name": lay.column_name(c)
                               if hasattr(lay, "column_name") else None,
                               "observed": float(row[c]),
                               "state": float(srow[c])}, W(what))
                break
            if np.any(shown[lay.VALUE:lay.VALUE + 2]):
                acc.count("observed_rows_showing_value_or_discovery_value")
            try:
                mine = readable_of(lay, row)
            except ValueError:
                continue
            if not readable_equal(mine, hosts_r[i]):
                acc.violation("obs_readable_mismatch",
                              "obs_readable_mismatch",
                              {"row": i, "got": hosts_r[i], "want": mine},
                              W(what))
                break
        acc.count("observations_decoded")

    def check_state(env, what):
        acc.evaluations += 1
        st = env.current_state
        ten = st.tensor
        back = State.from_numpy(ten.flatten().copy(), ten.shape,
                                st.host_num_map)
        if not np.array_equal(back.tensor, ten) or \
                not np.array_equal(back.numpy_flat(), ten.reshape(-1)):
            acc.violation("state_from_numpy_roundtrip",
                          "state_from_numpy_roundtrip", {}, W(what))
        fb = State.from_numpy(np.asfortranarray(ten), ten.shape,
                              st.host_num_map)
        if not np.array_equal(fb.numpy(), ten) or \
                not np.array_equal(fb.numpy_flat(), ten.reshape(-1)) or \
                not np.array_equal(fb.copy().numpy_flat(), ten.reshape(-1)):
            acc.violation("state_from_numpy_roundtrip",
                          "state_from_numpy_roundtrip:fortran", {}, W(what))
        rd = back.get_readable()
        for i in range(ten.shape[0]):
            mine = readable_of(lay, ten[i])
            if not readable_equal(mine, rd[i]):
                acc.violation("state_readable_mismatch",
                              "state_readable_mismatch",
                              {"row": i, "got": rd[i], "want": mine},
                              W(what))
                break
        # configuration part still decodes to the scenario's hosts
        if not np.array_equal(ten[:, lay.config_cols],
                              enc[:, lay.config_cols]):
            acc.violation("config_cols_changed", "config_cols_changed", {},
                          W(what))
        acc.count("states_decoded")
        acc.nontrivial(A.fp, "state", lay.key(), ten.tobytes())

    check_obs(obsA, obsB, A.env, None, "reset")
    check_state(A.env, "reset")
    for k in range(z["steps"]):
        S = lay.status(A.current().tensor)
        i = pol.choose(S)
        seed = A.seed_for(i, rng.random() < 0.8, rng)
        if k % 11 == 7:
            from nasim.envs.action import NoOp
            a1, a2 = NoOp(), NoOp()         # the do-nothing action
            acc.count("noop_observations_decoded")
        else:
            a1, a2 = int(i), np.int64(i)
        np.random.seed(seed)
        o1, r1, d1, tr1, info1 = A.env.step(a1)
        np.random.seed(seed)
        o2, r2, d2, tr2, info2 = B.env.step(a2)
        check_obs(o1, o2, A.env, info1, f"step {k}")
        if k % 5 == 0:
            check_state(A.env, f"step {k}")
        if not np.array_equal(A.env.current_state.tensor,
                              B.env.current_state.tensor):
            acc.violation("twin_state_diverged", "twin_state_diverged", {},
                          W(f"step {k}"))
            break
    if not twin and kw.get("route") in ("yaml", "dict"):
        from ..twins import any_twin
        c09_case(acc, any_twin(sp, rng), kw, rng, tier, twin=True)
        acc.count("twins_checked_right_after_original")
    if len(acc.samples) < 3:
        acc.sample({"scenario": sp.summary(), "layout(b0,b1,os,srv,proc)":
                    lay.key(), "row_width": want_w,
                    "first_row_decoded": lay.decode_row(t[0])})


# ======================================================================
# C10
def is_real(x):
    return isinstance(x, numbers.Real) and not isinstance(x, (bool, np.bool_))


def is_bool(x):
    return isinstance(x, (bool, np.bool_))


def flat_representations(i, n, rng):
    yield "int", int(i)
    for name, ty in (("int64", np.int64), ("int32", np.int32),
                     ("int16", np.int16), ("int8", np.int8),
                     ("uint8", np.uint8), ("uint16", np.uint16),
                     ("uint32", np.uint32)):
        if i <= np.iinfo(ty).max:
            yield name, ty(i)
    yield "0d-int64", np.array(i, dtype=np.int64)
    yield "0d-int32", np.array(i, dtype=np.int32)
    ro = np.array(i, dtype=np.int64)
    ro.setflags(write=False)
    yield "0d-int64-readonly", ro


def vec_representations(v):
    yield "list", [int(x) for x in v]
    yield "tuple", tuple(int(x) for x in v)
    yield "int64-array", np.array(v, dtype=np.int64)
    yield "int32-array", np.array(v, dtype=np.int32)
    yield "list-of-np", [np.int64(x) for x in v]
    if max(v) < 256:
        yield "uint8-array", np.array(v, dtype=np.uint8)
    ro = np.array(v, dtype=np.int64)
    ro.setflags(write=False)
    yield "int64-array-readonly", ro
    yield "frombuffer", np.frombuffer(np.array(v, dtype=np.int64).tobytes(),
                                      dtype=np.int64)
    yield "uint16-array", np.array(v, dtype=np.uint16)
    yield "uint32-array", np.array(v, dtype=np.uint32)
    yield "int8-array", np.array(v, dtype=np.int8) if max(v) < 128 \
        else np.array(v, dtype=np.int16)


def c10_entry_points(acc, rng):
    """The package-level constructors (nasim.make_benchmark / nasim.generate)
    hand out environments that honour the same contract."""
    import nasim
    modes = dict(fully_obs=rng.random() < 0.5, flat_actions=rng.random() < 0.5,
                 flat_obs=rng.random() < 0.5)
    x = rng.random()
    if x < 0.35:
        name = rng.choice(corpus.SHIPPED + corpus.GENERATED[:5])
        env = nasim.make_benchmark(name, seed=rng.randrange(100), **modes)
        what = f"make_benchmark({name})"
    elif x < 0.65:
        # nasim.load on a scenario file (a shipped one or a synthetic one
        # written out for the occasion)
        import os
        import tempfile
        if rng.random() < 0.5:
            name = rng.choice(corpus.SHIPPED)
            env = nasim.load(corpus.shipped_path(name), **modes)
            what = f"load({name}.yaml)"
        else:
            spx = synth.synth(rng, "quick", route="yaml", max_hosts=8)
            fd, path = tempfile.mkstemp(suffix=".yaml", prefix="nv-")
            with os.fdopen(fd, "w") as f:
                f.write(spx.to_yaml_text())
            try:
                env = nasim.load(path, **modes)
            finally:
                os.unlink(path)
            what = "load(synthetic yaml)"
        acc.count("entry_point_environments_from_load")
    else:
        p = dict(num_hosts=rng.choice([3, 5, 8, 12]),
                 num_services=rng.randint(1, 5), num_os=rng.randint(1, 3),
                 num_processes=rng.randint(1, 3), seed=rng.randrange(1000),
                 r_sensitive=rng.choice([10, 7.5]),
                 base_host_value=rng.choice([1, -2.5]))
        env = nasim.generate(**p, **modes)
        what = f"generate({p})"
    acc.evaluations += 1
    dims = env.scenario.get_observation_dims()
    want = (dims[0] * dims[1],) if modes["flat_obs"] else tuple(dims)
    o, info = env.reset()
    bad = []
    # the modes that were asked for are the modes one gets
    from gymnasium import spaces as _sp
    want_space = _sp.Discrete if modes["flat_actions"] else _sp.MultiDiscrete
    if not isinstance(env.action_space, want_space) or \
            bool(env.fully_obs) != modes["fully_obs"] or \
            env.observation_space.shape != want:
        bad.append(f"requested {modes}, got action space "
                   f"{type(env.action_space).__name__}, fully_obs="
                   f"{env.fully_obs}, observation space shape "
                   f"{env.observation_space.shape}")
    for _ in range(40):
        if bad:
            break
        if o.dtype != np.float32 or o.shape != want or \
                not env.observation_space.contains(o):
            bad.append(f"dtype={o.dtype} shape={o.shape} in_space="
                       f"{env.observation_space.contains(o)}")
            break
        a = env.action_space.sample()
        o, r, term, trunc, info = env.step(a)
        if term or trunc:
            o, info = env.reset()
    if bad:
        acc.violation("observation_contract", "observation_contract:entry",
                      {"constructor": what, "modes": modes, "bad": bad},
                      {"kind": "api", "what": what, "modes": modes})
    acc.count("entry_point_environments")


def c10_case(acc, sp, kw, rng, tier):
    z = SIZES[tier]
    c10_entry_points(acc, rng)
    scenario = None
    for fully, flat_a, flat_o in MODES:
        modes = dict(fully_obs=fully, flat_actions=flat_a, flat_obs=flat_o)
        k2 = dict(kw)
        if scenario is not None:
            k2["scenario"] = scenario
        S = Subject(sp, **modes, **k2)
        scenario = S.scenario
        env = S.env
        W = lambda what, m=modes: wit(sp, kw, m, what)     # noqa
        dims = scenario.get_observation_dims()
        want_shape = (dims[0] * dims[1],) if flat_o else tuple(dims)
        if tuple(env.observation_space.shape) != want_shape:
            acc.violation("space_shape_vs_scenario_dims",
                          "space_shape_vs_scenario_dims",
                          {"space": env.observation_space.shape,
                           "scenario_dims": dims}, W("shape"))

        def check_obs(o, what):
            acc.evaluations += 1
            bad = []
            if not isinstance(o, np.ndarray):
                bad.append(f"type {type(o).__name__}")
            else:
                if o.dtype != np.float32:
                    bad.append(f"dtype {o.dtype}")
                if o.shape != tuple(env.observation_space.shape):
                    bad.append(f"shape {o.shape} != space "
                               f"{env.observation_space.shape}")
                if o.shape != want_shape:
                    bad.append(f"shape {o.shape} != advertised {want_shape}")
                if not env.observation_space.contains(o):
                    bad.append("not in observation_space "
                               f"[{float(env.observation_space.low.min())}, "
                               f"{float(env.observation_space.high.max())}] "
                               f"min={float(o.min())} max={float(o.max())}")
                if o.size and (o.min() < 0 or o.max() > 1):
                    acc.nontrivial(S.fp, "outside01", modes, o.tobytes())
                    acc.count("obs_with_value_outside_0_1")
                    if o.min() < 0:
                        acc.count("obs_with_negative_value")
            if bad:
                acc.violation("observation_contract",
                              "observation_contract:" + bad[0].split()[0],
                              bad, W(what))
            acc.count("observations_checked")

        r = env.reset()
        if not (isinstance(r, tuple) and len(r) == 2
                and isinstance(r[1], dict)):
            acc.violation("reset_tuple", "reset_tuple", repr(type(r)),
                          W("reset"))
            continue
        check_obs(r[0], "reset")
        r = env.reset(seed=3)
        check_obs(r[0], "reset(seed)")
        space = env.action_space
        n_flat = S.n_actions

        def try_step(x, rep, via_sample=False):
            acc.evaluations += 1
            if not space.contains(x):
                acc.count("representation_not_member:" + rep)
                return
            np.random.seed(rng.randrange(4096))
            try:
                out = env.step(x)
            except Exception as e:      # noqa
                acc.violation("member_rejected", f"member_rejected:{rep}",
                              f"{type(e).__name__}: {str(e)[:150]} for "
                              f"{rep} {x!r}", W(f"step {rep}"))
                return
            acc.count("members_accepted:" + rep)
            acc.nontrivial(S.fp, "accept", modes, rep)
            if not (isinstance(out, tuple) and len(out) == 5):
                acc.violation("step_tuple", "step_tuple", repr(out)[:100],
                              W("step"))
                return
            o, rew, term, trunc, info = out
            bad = []
            if not is_real(rew):
                bad.append(f"reward {type(rew).__name__}")
            if not is_bool(term):
                bad.append(f"terminated {type(term).__name__}")
            if not is_bool(trunc):
                bad.append(f"truncated {type(trunc).__name__}")
            if not isinstance(info, dict):
                bad.append(f"info {type(info).__name__}")
            if bad:
                acc.violation("step_tuple_types", "step_tuple_types", bad,
                              W("step"))
            check_obs(o, f"step {rep}")
            if term or trunc:
                env.reset()

        if flat_a:
            idxs = list(range(n_flat))
            if len(idxs) > 400:
                idxs = rng.sample(idxs, 400)
            pol = Policy(S, rng, "attacker")
            for i in idxs:              # every flat index (sampled if huge)
                try_step(int(i), "int")
            for _ in range(z["steps"]):
                St = S.lay.status(env.current_state.tensor)
                i = pol.choose(St)
                name, x = rng.choice(list(flat_representations(i, n_flat,
                                                               rng)))
                try_step(x, name)
            for _ in range(z["samples"]):
                try_step(space.sample(), "sample()")
        else:
            nvec = [int(x) for x in space.nvec]
            for _ in range(z["steps"]):
                v = [rng.randrange(m) for m in nvec]
                name, x = rng.choice(list(vec_representations(v)))
                try_step(x, name)
            for _ in range(z["samples"]):
                try_step(space.sample(), "sample()")
        acc.count("mode_combinations")
    if kw.get("route") in ("yaml", "dict"):
        # a twin of the same shape (renamed / re-ordered names) built right
        # after the original: every member of its action space is stepped
        from ..twins import any_twin
        tw = any_twin(sp, rng)
        T = Subject(tw, route=kw["route"], fully_obs=rng.random() < 0.5)
        T.reset()
        for i in range(T.n_actions):
            acc.evaluations += 1
            x = rng.choice([int(i), np.int64(i)])
            if not T.env.action_space.contains(x):
                continue
            try:
                o = T.env.step(x)[0]
            except Exception as e:      # noqa
                acc.violation("member_rejected", "member_rejected:twin",
                              f"{type(e).__name__}: {str(e)[:120]} (scenario "
                              "built right after one of the same shape)",
                              wit(tw, kw, T.modes, "twin step"))
                break
            if not T.env.observation_space.contains(o):
                acc.violation("observation_contract",
                              "observation_contract:twin", {},
                              wit(tw, kw, T.modes, "twin obs"))
                break
        acc.count("twins_stepped_right_after_original")
    if len(acc.samples) < 3:
        acc.sample({"scenario": sp.summary(),
                    "observation_space": [float(env.observation_space.low.min()),
                                          float(env.observation_space.high.max()),
                                          list(env.observation_space.shape)],
                    "action_space": str(space)})


# ======================================================================
# C11
def action_signature(a):
    """What the subject's Action object says about itself."""
    kind = {"ServiceScan": SRV_SCAN, "OSScan": OS_SCAN, "SubnetScan": SUB_SCAN,
            "ProcessScan": PROC_SCAN, "Exploit": EXPLOIT,
            "PrivilegeEscalation": PRIVESC, "NoOp": NOOP}[type(a).__name__]
    sig = {"kind": kind, "target": (int(a.target[0]), int(a.target[1])),
           "cost": float(a.cost), "prob": float(a.prob),
           "req_access": int(a.req_access)}
    st = lambda x: None if x is None else str(x)    # noqa (np.str_ -> str)
    if kind == EXPLOIT:
        sig.update(name=st(a.name), service=st(a.service), os=st(a.os),
                   access=int(a.access))
    elif kind == PRIVESC:
        sig.update(name=st(a.name), process=st(a.process), os=st(a.os),
                   access=int(a.access))
    return sig


def desc_signature(d):
    sig = {"kind": d["kind"], "target": tuple(d["target"]),
           "cost": float(d["cost"]), "prob": float(d["prob"]),
           "req_access": int(d["req_access"])}
    if d["kind"] == EXPLOIT:
        sig.update(name=d["name"], service=d["service"], os=d["os"],
                   access=int(d["access"]))
    elif d["kind"] == PRIVESC:
        sig.update(name=d["name"], process=d["process"], os=d["os"],
                   access=int(d["access"]))
    return sig


def c11_case(acc, sp, kw, rng, tier, xproc=None, twin=False):
    z = SIZES[tier]
    if not twin and kw.get("route") in ("yaml", "dict") and \
            rng.random() < 0.5:
        # first the scenario, then - right after it in the same process - a
        # twin of the same shape (renamed, re-ordered or redefined)
        from ..twins import any_twin
        c11_case(acc, sp, kw, rng, "quick", None, twin=True)
        sp = any_twin(sp, rng)
        acc.count("twins_enumerated_right_after_original")
    F = Subject(sp, flat_actions=True, **kw)
    W = lambda what: wit(sp, kw, F.modes, what)     # noqa
    if len(sp.subnets) > 10:
        acc.count("scenarios_with_two_digit_subnet_ids")
    mine = flat_descriptors(sp)
    theirs = F.actions
    acc.evaluations += 1
    n_adv = F.scenario.get_action_space_size()
    if len(theirs) != len(mine) or F.env.action_space.n != len(mine) or \
            n_adv != len(mine):
        acc.violation("flat_size", "flat_size",
                      {"listed": len(theirs), "space.n":
                       int(F.env.action_space.n), "advertised": n_adv,
                       "expected": len(mine)}, W("size"))
    sig_mine = [desc_signature(d) for d in mine]
    sig_theirs = [action_signature(a) for a in theirs]
    key = lambda s: sorted((k, repr(v)) for k, v in s.items())  # noqa
    if sorted(map(key, sig_mine)) != sorted(map(key, sig_theirs)):
        missing = [s for s in sig_mine if s not in sig_theirs][:3]
        extra = [s for s in sig_theirs if s not in sig_mine][:3]
        acc.violation("flat_content", "flat_content",
                      {"missing": missing, "unexpected_or_duplicated": extra},
                      W("multiset"))
    elif sig_mine != sig_theirs:
        first = next(i for i in range(len(mine))
                     if sig_mine[i] != sig_theirs[i])
        acc.violation("flat_order", "flat_order",
                      {"index": first, "got": sig_theirs[first],
                       "documented": sig_mine[first]}, W("order"))
    for i in range(len(theirs)):
        acc.evaluations += 1
        a = F.env.action_space.get_action(i)
        if a is not theirs[i] and action_signature(a) != sig_theirs[i]:
            acc.violation("get_action_index", "get_action_index", {"i": i},
                          W("get_action"))
            break
    acc.count("flat_indices_checked", len(theirs))
    dup = len({(e["service"], e["os"]) for e in sp.exploits.values()}) < \
        len(sp.exploits)
    if dup:
        acc.count("scenarios_with_duplicate_service_os_exploits")
    # remember the mapping for the cross-process comparison at the end of
    # the shard (other interpreters, other PYTHONHASHSEED)
    if xproc is not None and kw.get("route") in ("yaml", "dict") and \
            len(xproc) < 12:
        import hashlib
        import json as _json
        blob = _json.dumps([sorted((k, repr(v)) for k, v in s_.items())
                            for s_ in sig_theirs], sort_keys=True)
        xproc.append(({"type": "actions",
                       "source": {"type": "synth", "route": kw["route"],
                                  "spec": sp.canonical()}},
                      hashlib.sha256(blob.encode()).hexdigest()[:20]))
    # a second environment of the same scenario: same index -> action
    F2 = Subject(sp, flat_actions=True, scenario=F.scenario,
                 route=kw.get("route"))
    if [action_signature(a) for a in F2.actions] != sig_theirs:
        acc.violation("mapping_differs_between_envs",
                      "mapping_differs_between_envs", {}, W("two envs"))
    # ---- mask in reachable states
    pol = Policy(F, rng, "attacker")
    F.reset()
    n_ep = 5
    for k in range(z["steps"] * n_ep):
        if k and k % z["steps"] == 0:
            # a new episode on the same environment object, taking a
            # different route (the policy picks at random among the
            # progressing actions)
            F.reset()
            acc.count("mask_episodes")
        acc.evaluations += 1
        try:
            mask = F.env.get_action_mask()
        except Exception as e:      # noqa
            acc.violation("mask_raised", f"mask_raised:{type(e).__name__}",
                          str(e)[:200], W("mask"))
            break
        S = F.lay.status(F.current().tensor)
        want = [S[3][F.model.row[d["target"]]] for d in mine]
        got = [int(x) for x in np.asarray(mask).tolist()]
        if len(got) != len(mine) or got != want:
            acc.violation("mask_wrong", "mask_wrong",
                          {"len": len(got), "sum": sum(got),
                           "expected_sum": sum(want)}, W(f"mask step {k}"))
            break
        if 0 < sum(got) < len(got):
            acc.nontrivial(F.fp, "mask", bytes(got))
            acc.count("partial_masks")
        acc.count("masks_checked")
        i = pol.choose(S)
        T = F.step(i, F.seed_for(i, rng.random() < 0.85, rng))
        if T.raised:
            break
    # ---- the mapping after the episodes: attacks repeated on hosts that are
    # already compromised, then every index looked up again
    if len(theirs) == len(mine):
        S = F.lay.status(F.current().tensor)
        again = [i for i, d in enumerate(mine) if d["kind"] == EXPLOIT and
                 S[0][F.model.row[d["target"]]]]
        rng.shuffle(again)
        for i in again[:12]:
            T = F.step(i, F.seed_for(i, rng.random() < 0.85, rng))
            acc.count("exploits_repeated_on_compromised_hosts")
            if T.raised:
                break
        acc.evaluations += 1
        live = F.env.action_space.actions
        sig_after = [action_signature(F.env.action_space.get_action(i))
                     for i in range(len(live))]
        F3 = Subject(sp, flat_actions=True, scenario=F.scenario,
                     route=kw.get("route"))
        sig_new = [action_signature(a) for a in F3.env.action_space.actions]
        for what, sg in (("same environment after its episodes", sig_after),
                         ("environment built after the episodes", sig_new)):
            if sg != sig_theirs:
                j = next((j for j in range(min(len(sg), len(sig_theirs)))
                          if sg[j] != sig_theirs[j]), None)
                acc.violation(
                    "mapping_changed_by_stepping",
                    "mapping_changed_by_stepping",
                    {"which": what, "index": j,
                     "before": sig_theirs[j] if j is not None else None,
                     "after": sg[j] if j is not None else None},
                    W("mapping after episodes"))
                break
        acc.count("mappings_rechecked_after_episodes")
    # ---- parameterised space
    P = Subject(sp, flat_actions=False, scenario=F.scenario,
                route=kw.get("route"))
    space = P.env.action_space
    nvec = [int(x) for x in space.nvec]
    doc_nvec = [6, len(sp.subnets) - 1, max(sp.subnets), len(sp.os) + 1,
                len(sp.services), len(sp.processes)]
    acc.evaluations += 1
    if nvec != doc_nvec:
        # the documented space: type, subnet (without the internet), host
        # (largest subnet), OS (+1 for "any"), service, process
        acc.violation("param_space_dimensions", "param_space_dimensions",
                      {"nvec": nvec, "documented": doc_nvec}, W("nvec"))
    total = int(np.prod(nvec))
    flat_set = {tuple(key(s)) for s in sig_mine}
    exhaustive = total <= z["vec_cap"]
    if exhaustive:
        vecs = itertools.product(*[range(m) for m in nvec])
        acc.count("param_spaces_fully_enumerated")
    else:
        bnd = [sorted({0, m - 1, m // 2}) for m in nvec]
        vecs = itertools.chain(
            itertools.product(*bnd),
            ([rng.randrange(m) for m in nvec]
             for _ in range(z["vec_cap"] // 4)))
        acc.count("param_spaces_sampled")
    nv = 0
    for v in vecs:
        nv += 1
        acc.evaluations += 1
        v = list(v)
        if any(x >= m for x, m in zip(v, doc_nvec)):
            # outside the documented space (only possible when the space's
            # dimensions are wrong, reported above): must still not raise
            try:
                space.get_action(v)
            except Exception as e:      # noqa
                acc.violation("vector_raised",
                              f"vector_raised:{type(e).__name__}",
                              {"vector": v, "error": str(e)[:150]},
                              W("vector"))
            continue
        d, flags = decode_vector(sp, v)
        rep = rng.random()
        arg = v if rep < 0.5 else (tuple(v) if rep < 0.7 else
                                   np.array(v, dtype=np.int64))
        try:
            a = space.get_action(arg)
        except Exception as e:      # noqa
            acc.violation("vector_raised",
                          f"vector_raised:{type(e).__name__}",
                          {"vector": v, "error": str(e)[:150]}, W("vector"))
            continue
        got = action_signature(a)
        want = desc_signature(d)
        if got != want:
            acc.violation("vector_decodes_wrong",
                          f"vector_decodes_wrong:{want['kind']}",
                          {"vector": v, "got": got, "documented": want},
                          W("vector"))
        elif got["kind"] != NOOP and tuple(key(got)) not in flat_set:
            acc.violation("vector_not_in_flat_set", "vector_not_in_flat_set",
                          {"vector": v, "got": got}, W("vector"))
        for fl in flags:
            acc.count("vec:" + fl)
        if flags & {"wraparound", "undefined_combination",
                    "os_agnostic_definition"}:
            acc.nontrivial(P.fp, "vec", tuple(v))
    acc.count("vectors_checked", nv)
    if len(acc.samples) < 3:
        acc.sample({"scenario": sp.summary(), "flat_n": len(mine),
                    "nvec": nvec, "vectors_checked": nv,
                    "exhaustive": exhaustive,
                    "example_vector": [v, desc_signature(d)]})


CASES = {"C09": c09_case, "C10": c10_case, "C11": c11_case}


def run(prop, tier, seed, shard, nshards):
    acc = Acc(prop)
    import nasim
    acc.extra["nasim_file"] = nasim.__file__
    cases = build_cases(tier)
    xproc = [] if prop == "C11" else None
    for ci in corpus.shard_range(len(cases), shard, nshards):
        ctype, cid = cases[ci]
        rng = corpus.case_rng(seed, prop, ctype, cid)
        try:
            sp, kw = make_source(ctype, cid, rng, tier)
        except Exception as e:      # generator failure is C15's business
            acc.count("source_failed:" + type(e).__name__)
            continue
        try:
            if prop == "C11":
                c11_case(acc, sp, kw, rng, tier, xproc)
            else:
                CASES[prop](acc, sp, kw, rng, tier)
        except Exception as e:      # noqa
            import traceback
            acc.inconclusive.append(
                f"case {ctype}:{cid} harness error {type(e).__name__}: {e} "
                + traceback.format_exc(limit=4)[-400:])
            continue
        acc.count(f"cases:{ctype}")
    if xproc:
        # same scenarios in other interpreters: index -> action must agree
        from . import repro
        saved = repro.HASH_SEEDS
        try:
            repro.HASH_SEEDS = {tier: ["1", "random"]}
            outs = repro.spawn_children([c for c, _fp in xproc], tier)
        finally:
            repro.HASH_SEEDS = saved
        for o in outs:
            if "error" in o:
                acc.inconclusive.append("C11 child failed: " +
                                        o["error"][-200:])
                continue
            for (c, fp), r in zip(xproc, o["results"]):
                acc.evaluations += 1
                acc.count("mappings_compared_across_processes")
                if r.get("fp") != fp:
                    acc.violation(
                        "mapping_differs_between_processes",
                        "mapping_differs_between_processes",
                        {"here": fp, "child": r, "hashseed": o["hashseed"]},
                        {"kind": "api", "spec": c["source"]["spec"],
                         "route": c["source"]["route"], "modes": {},
                         "what": "xproc"})
    return acc.result()


def replay(prop, path):
    import json
    from ..spec import spec_from_canonical
    import random
    with open(path) as f:
        doc = json.load(f)
    w = doc["violation"]["witness"]
    sp = spec_from_canonical(w["spec"])
    route = w.get("route") if w.get("route") in ("yaml", "dict") else "dict"
    acc = Acc(prop)
    CASES[prop](acc, sp, dict(route=route), random.Random(doc.get("seed", 0)),
                doc.get("tier", "quick"))
    if acc.n_violations:
        for v in acc.violations[:3]:
            print(f"VIOLATION property={prop} replay={path}")
            print(f"  clause={v['code']} detail="
                  f"{json.dumps(v['detail'], default=repr)[:300]}")
        return 1
    print(f"replay of {path}: property {prop} held")
    return 0
