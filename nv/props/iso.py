"""C19: environment instances are independent of each other.

Differential monitor: the trace of an environment executed alone is compared
with its trace when its operations are interleaved with those of a second
environment (all merges of short sequences, random merges of longer ones).
Divergences are classified by mechanism: if the process-global HostVector
layout no longer equals the layout the diverging environment was built with,
the divergence is the recorded finding KF-C19-layout; anything else - and any
divergence at all in shim mode, where the harness re-installs the acting
environment's layout before each of its operations - is a violation.
"""
import itertools
import json
import os
import subprocess

import numpy as np

from .. import corpus, synth
from ..spec import flat_descriptors, spec_from_canonical
from ..refmodel import Model
from ..layout import Layout
from ..verdict import Acc, h64

SIZES = {"quick": dict(n_pairs=160, long_merges=10, ops=14),
         "thorough": dict(n_pairs=3000, long_merges=60, ops=30)}

LAYOUT_ATTRS = ["address_space_bounds", "num_os", "os_idx_map",
                "num_services", "service_idx_map", "num_processes",
                "process_idx_map", "state_size", "_subnet_address_idx",
                "_host_address_idx", "_compromised_idx", "_reachable_idx",
                "_discovered_idx", "_value_idx", "_discovery_value_idx",
                "_access_idx", "_os_start_idx", "_service_start_idx",
                "_process_start_idx"]


def layout_snapshot():
    from nasim.envs.host_vector import HostVector
    out = {}
    for a in LAYOUT_ATTRS:
        v = getattr(HostVector, a, None)
        out[a] = dict(v) if isinstance(v, dict) else v
    return out


def layout_install(snap):
    from nasim.envs.host_vector import HostVector
    for a, v in snap.items():
        setattr(HostVector, a, dict(v) if isinstance(v, dict) else v)


def norm(x):
    if isinstance(x, dict):
        return tuple(sorted((str(k), norm(v)) for k, v in x.items()))
    if isinstance(x, (list, tuple)):
        return tuple(norm(v) for v in x)
    if isinstance(x, (bool, np.bool_)):
        return bool(x)
    if isinstance(x, (int, float, np.integer, np.floating)):
        return float(x)
    if isinstance(x, np.ndarray):
        return x.tobytes()
    return str(x)


def strip_readable(rec):
    """A trace record without the decoded (readable) views."""
    if rec and rec[0] in ("construct", "reset", "step") and \
            isinstance(rec[-1], tuple) and len(rec[-1]) == 4:
        return rec[:-1] + (rec[-1][:2],)
    return rec


class Runner:
    """Executes the operations of one logical environment."""

    def __init__(self, source, shared=None):
        self.source = source
        self.env = None
        self.snap = None
        self.trace = []
        # environments of one interleaving may be built from one and the same
        # Scenario object (source["share"] names it)
        self.shared = shared if shared is not None else {}

    def build_scenario(self):
        key = self.source.get("share")
        if key is None:
            return self._build_scenario()
        if key not in self.shared:
            self.shared[key] = self._build_scenario()
        return self.shared[key]

    def _build_scenario(self):
        import nasim
        s = self.source
        if s["type"] == "shipped":
            return nasim.make_benchmark_scenario(s["name"])
        if s["type"] == "bench":
            if s["seed"] is None:
                # unseeded: the scenario comes from the current state of
                # NumPy's global generator, which the harness fixes here
                np.random.seed(s["np_seed"])
                return nasim.make_benchmark_scenario(s["name"])
            return nasim.make_benchmark_scenario(s["name"], seed=s["seed"])
        sp = spec_from_canonical(s["spec"])
        if s["route"] == "yaml":
            import tempfile
            fd, path = tempfile.mkstemp(suffix=".yaml", prefix="nv-")
            with os.fdopen(fd, "w") as f:
                f.write(sp.to_yaml_text())
            try:
                return nasim.load_scenario(path)
            finally:
                os.unlink(path)
        return sp.to_scenario()

    def observe(self):
        env = self.env
        return (env.current_state.tensor.tobytes(),
                env.last_obs.tensor.tobytes(),
                norm(env.current_state.get_readable()),
                norm(env.last_obs.get_readable()))

    def do(self, op, shim=False):
        from nasim.envs import NASimEnv
        if shim and self.snap is not None and op[0] != "construct":
            layout_install(self.snap)
        try:
            if op[0] == "construct":
                sc = self.build_scenario()
                self.env = NASimEnv(sc, **self.source["modes"])
                self.snap = layout_snapshot()
                rec = ("construct", self.env.observation_space.shape,
                       int(np.prod(self.env.action_space.shape or (1,))),
                       self.observe())
            elif op[0] == "reset":
                o, info = self.env.reset()
                rec = ("reset", np.asarray(o).tobytes(), self.observe())
            elif op[0] == "reset_seed":
                o, info = self.env.reset(seed=op[1])
                rec = ("reset", np.asarray(o).tobytes(), self.observe())
            elif op[0] == "step":
                np.random.seed(op[2])
                arg = int(op[1])
                if not self.source["modes"]["flat_actions"]:
                    # the vector documenting the same action (or the Action
                    # object when the vector space cannot express it)
                    arg = list(op[3]) if len(op) > 3 and op[3] is not None \
                        else self.env.action_space.actions[int(op[1])]
                o, r, term, trunc, info = self.env.step(arg)
                rec = ("step", np.asarray(o).tobytes(), float(r), bool(term),
                       bool(trunc), norm(info), self.observe())
            elif op[0] == "mask":
                rec = ("mask", self.env.get_action_mask().tobytes())
            else:
                raise ValueError(op)
        except Exception as e:      # noqa
            rec = ("raised", type(e).__name__, str(e)[:80])
        self.trace.append(rec)
        return rec


def pilot(source, rng, nops):
    """Run one environment alone, choosing its operations online; returns
    (ops, trace, state_changing_positions)."""
    r = Runner(source)
    ops = [("construct",)]
    r.do(ops[0])
    if r.trace[0][0] == "raised":
        return ops, r.trace, [], r
    sp = source["_spec"]
    model, lay = Model(sp), Layout(sp)
    descs = flat_descriptors(sp)
    from .. import rngtap
    changing = []
    for k in range(nops - 1):
        x = rng.random()
        if x < 0.05:
            op = ("reset",)
        elif x < 0.09:
            op = ("reset_seed", rng.randrange(1000))
        elif x < 0.12 and source["modes"]["flat_actions"]:
            op = ("mask",)
        else:
            S = lay.status(r.env.current_state.tensor)
            i = None
            for _ in range(30):
                j = rng.randrange(len(descs))
                ok, S2, _v, _g, _e = model.step(S, descs[j], None)
                if ok and S2 != S and (S2[0] != S[0] or S2[1] != S[1] or
                                       S2[3] != S[3]):
                    if source.get("prefer_refused") and \
                            not source.get("_refused") and \
                            descs[j]["kind"] == "exploit" and \
                            descs[j]["target"][0] == 1 and not \
                            sp.hosts[(2, 0)]["firewall"].get(
                                descs[j]["target"]):
                        continue    # first the footholds that are refused
                    i = j
                    break
            if i is None or rng.random() < 0.25:
                i = rng.randrange(len(descs))
            if source.get("prefer_refused") and rng.random() < 0.5:
                # an attack that the target's own firewall refuses
                from ..refmodel import G_FWBLOCK
                blocked = [j for j in range(len(descs))
                           if model.step(S, descs[j], None)[3] == G_FWBLOCK]
                if blocked:
                    i = rng.choice(blocked)
                    source["_refused"] = source.get("_refused", 0) + 1
            seed = rngtap.seed_for(descs[i]["prob"], rng.random() < 0.85)[0]
            from ..paramspace import vector_for
            op = ("step", i, seed, vector_for(sp, descs[i]))
        before = r.env.current_state.tensor.tobytes()
        r.do(op)
        ops.append(op)
        if op[0] == "step" and \
                r.env.current_state.tensor.tobytes() != before:
            changing.append(len(ops) - 1)
    return ops, r.trace, changing, r


def make_pair(rng, tier, force=None):
    """-> (sourceA, sourceB, kind)"""
    def modes():
        return {"fully_obs": rng.random() < 0.4,
                "flat_actions": rng.random() < 0.7,
                "flat_obs": rng.random() < 0.6}

    def shipped(name):
        return {"type": "shipped", "name": name, "modes": modes(),
                "_spec": corpus.shipped_spec(name)}

    def bench(name, seed, np_seed=None):
        if seed is None:
            import nasim
            from ..spec import spec_from_scenario
            np.random.seed(np_seed)
            sp = spec_from_scenario(nasim.make_benchmark_scenario(name))
        else:
            sp, _sc = corpus.generated_case(name, seed)
        return {"type": "bench", "name": name, "seed": seed,
                "np_seed": np_seed, "modes": modes(), "_spec": sp}

    def syn(sp=None):
        sp = sp or synth.synth(rng, "quick", max_hosts=7)
        return {"type": "synth", "route": sp.origin.split(":")[1],
                "spec": sp.canonical(), "modes": modes(), "_spec": sp}

    k = rng.choice(["same", "same", "same_layout", "twin", "twin",
                    "different", "different", "different_modes",
                    "refused_pivot", "split"])
    if force == "tiny_small":
        # the documented witness of the recorded finding KF-C19-layout
        return shipped("tiny"), shipped("small"), "different"
    if k == "twin":
        # same layout, content differing in exactly one field
        sp = synth.synth(rng, "quick", max_hosts=6, live=1.0)
        can = sp.canonical()
        ex_srv = [e["service"] for e in sp.exploits.values()]
        what = rng.choice(["deny", "deny", "rule", "rule", "hostsrv",
                           "value", "exploit", "exploit", "exploit",
                           "scancost"])
        if what == "deny" and len(sp.addrs) > 1:
            # one host denies (resp. stops denying) the exploitable
            # services from every other host: matters as soon as it is
            # attacked from a foothold rather than from the internet
            h = rng.choice(can["hosts"])
            if h[6]:
                h[6] = {}
            else:
                h[6] = {str(a): sorted(set(ex_srv)) for a in sp.addrs
                        if list(a) != h[0]}
        elif what == "rule":
            kk = rng.choice(list(can["firewall"]))
            cur = set(can["firewall"][kk])
            svc = rng.choice(ex_srv)
            can["firewall"][kk] = sorted(cur ^ {svc})
        elif what == "hostsrv":
            h = rng.choice(can["hosts"])
            svc = rng.choice(ex_srv)
            cur = set(h[2]) ^ {svc}
            h[2] = sorted(cur) or [sp.services[0]]
        elif what == "value":
            h = rng.choice(can["hosts"])
            if tuple(h[0]) in sp.sensitive:
                can["sensitive"][str(tuple(h[0]))] += 1
            h[4] = (h[4] or 0) + 1
        elif what == "exploit":
            f = rng.choice(["cost", "access", "prob"])
            names = can["exploit_order"] if rng.random() < 0.6 else \
                [rng.choice(can["exploit_order"])]
            for n in names:     # same names, different definitions
                e = can["exploits"][n]
                if f == "cost":
                    e["cost"] = e["cost"] + 1
                elif f == "access":
                    e["access"] = 3 - e["access"]
                else:
                    e["prob"] = 1.0 if e["prob"] < 1 else 0.3
        else:
            kk = rng.choice(list(can["scan_costs"]))
            can["scan_costs"][kk] = can["scan_costs"][kk] + 1
        sp2 = spec_from_canonical(can, name=sp.name, origin=sp.origin)
        m = modes()
        a, b = syn(sp), syn(sp2)
        a["modes"] = b["modes"] = m
        return a, b, "twin_one_field:" + what
    if k == "split":
        # the same network under two address-space bounds of equal total
        # width, (subnets + k, hosts) and (subnets, hosts + k): only the place
        # where the host one-hot starts differs between the two layouts
        sp = synth.synth(rng, "quick", route="dict", max_hosts=7, live=1.0)
        can = sp.canonical()
        n0, m0 = len(sp.subnets), max(sp.subnets)
        kk = rng.randint(1, 2)
        can_a, can_b = dict(can), dict(can)
        can_a["bounds"] = [n0 + kk, m0]
        can_b["bounds"] = [n0, m0 + kk]
        a = syn(spec_from_canonical(can_a, name=sp.name, origin=sp.origin))
        b = syn(spec_from_canonical(can_b, name=sp.name, origin=sp.origin))
        a["modes"]["fully_obs"] = b["modes"]["fully_obs"] = \
            rng.random() < 0.25
        if rng.random() < 0.5:
            a, b = b, a
        return a, b, "split"
    if k == "refused_pivot":
        # two environments attacking one network whose inner hosts refuse
        # some footholds; mostly built from one and the same Scenario object
        a = syn(synth.refused_pivot(rng))
        a["prefer_refused"] = True
        b = dict(a, modes=a["modes"] if rng.random() < 0.5 else modes())
        if rng.random() < 0.8:
            a["share"] = b["share"] = "S"
        return a, b, "refused_pivot"
    if k == "same":
        if rng.random() < 0.5:
            a = shipped(rng.choice(corpus.SHIPPED[:6]))
        else:
            a = syn()
        b = dict(a, modes=a["modes"] if rng.random() < 0.5 else modes())
        if rng.random() < 0.5:
            # both environments are built from one Scenario object
            a["share"] = b["share"] = "S"
        return a, b, "same_scenario"
    if k == "same_layout":
        if rng.random() < 0.6:
            name = rng.choice(["tiny-gen", "small-gen", "small-gen-rgoal",
                               "medium-gen"])
            s1, s2 = rng.sample(range(200), 2)
            if rng.random() < 0.4:
                # a seeded and an unseeded environment of one benchmark
                pair = [bench(name, s1), bench(name, None, 5000 + s2)]
                rng.shuffle(pair)
                return pair[0], pair[1], "same_layout"
            return bench(name, s1), bench(name, s2), "same_layout"
        sp = synth.synth(rng, "quick", max_hosts=7)
        can = sp.canonical()
        # same names and sizes, different host content / rules / values
        for h in can["hosts"]:
            h[2] = sorted(rng.sample(sp.services,
                                     rng.randint(1, len(sp.services))))
            h[3] = sorted(rng.sample(sp.processes,
                                     rng.randint(0, len(sp.processes))))
            h[1] = rng.choice(sp.os)
            h[6] = {str(src): sorted(rng.sample(sp.services, rng.randint(
                1, len(sp.services))))
                for src in rng.sample(sp.addrs, rng.randint(0, min(
                    3, len(sp.addrs))))}
            if tuple(h[0]) not in sp.sensitive:
                h[4] = rng.choice([-5, 0, 1, 2.5])
        for k in can["firewall"]:
            can["firewall"][k] = sorted(rng.sample(
                sp.services, rng.randint(0, len(sp.services))))
        sp2 = spec_from_canonical(can, name=sp.name, origin=sp.origin)
        return syn(sp), syn(sp2), "same_layout"
    if k == "different_modes":
        a = shipped(rng.choice(["tiny", "tiny-small", "small"]))
        b = dict(a, modes={"fully_obs": not a["modes"]["fully_obs"],
                           "flat_actions": not a["modes"]["flat_actions"],
                           "flat_obs": not a["modes"]["flat_obs"]})
        return a, b, "same_scenario"
    pool = [lambda: shipped(rng.choice(corpus.SHIPPED[:7])), syn,
            lambda: bench(rng.choice(["tiny-gen", "small-gen"]),
                          rng.randrange(100))]
    a = rng.choice(pool)()
    b = rng.choice(pool)()
    return a, b, "different"


def layouts_equal(a, b):
    return Layout(a["_spec"]).key() == Layout(b["_spec"]).key() and \
        a["_spec"].os == b["_spec"].os and \
        a["_spec"].services == b["_spec"].services and \
        a["_spec"].processes == b["_spec"].processes


def public(src):
    return {k: v for k, v in src.items() if not k.startswith("_")}


def interleave(acc, A, B, opsA, opsB, soloA, soloB, sched, shim, kind, pair_id,
               changeA, changeB):
    """Execute one merge (sched = string of 'a'/'b').  Returns True if a
    divergence was found."""
    shared = {}
    ra, rb = Runner(A, shared), Runner(B, shared)
    ia = ib = 0
    acc.evaluations += 1
    for pos, who in enumerate(sched):
        if who == "a":
            r, ops, solo, i = ra, opsA, soloA, ia
            ia += 1
        else:
            r, ops, solo, i = rb, opsB, soloB, ib
            ib += 1
        rec = r.do(ops[i], shim=shim)
        if rec != solo[i]:
            from nasim.envs.host_vector import HostVector    # noqa
            now = layout_snapshot()
            overwritten = r.snap is not None and now != r.snap
            what = "exception" if rec[0] == "raised" else "trace"
            detail = {"pair_kind": kind, "schedule": sched, "position": pos,
                      "env": who, "op": list(ops[i]),
                      "got": rec[:3] if rec[0] == "raised" else rec[0],
                      "layout_overwritten_by_other_env": overwritten,
                      "shim": shim}
            wit = {"kind": "iso", "A": public(A), "B": public(B),
                   "opsA": [list(o) for o in opsA],
                   "opsB": [list(o) for o in opsB], "schedule": sched,
                   "shim": shim}
            split_only = False
            if overwritten and not shim:
                differing = {a for a in LAYOUT_ATTRS
                             if now.get(a) != r.snap.get(a)}
                split_only = differing <= {"address_space_bounds",
                                           "_host_address_idx"}
            if split_only and strip_readable(rec) != strip_readable(solo[i]):
                # the two layouts differ only in where the host one-hot
                # starts: the recorded finding then reaches the decoded
                # addresses (readable views) and nothing else - arrays,
                # rewards, flags and errors must still agree
                mech = "diverged_beyond_layout_footprint:" + what
                detail["layout_attributes_differing"] = sorted(differing)
            elif overwritten and not shim:
                mech = "layout_class_attrs_overwritten"
            elif shim:
                mech = f"diverged_in_shim_mode:{what}"
            else:
                mech = f"shared_state_other_than_layout:{what}"
            acc.violation("instances_interfere", mech, detail, wit)
            return True
    return False


def schedules(na, nb, rng, limit):
    """All merges when there are few, random ones otherwise.  A's
    construction may come before or after B's."""
    total = na + nb
    n_all = 1
    for i in range(1, nb + 1):
        n_all = n_all * (na + i) // i
    if n_all <= limit:
        for pos in itertools.combinations(range(total), nb):
            s = ["a"] * total
            for p in pos:
                s[p] = "b"
            yield "".join(s)
    else:
        for _ in range(limit):
            s = ["a"] * na + ["b"] * nb
            rng.shuffle(s)
            yield "".join(s)


def pair_case(acc, rng, tier, pair_id):
    z = SIZES[tier]
    A, B, kind = make_pair(rng, tier, "tiny_small" if pair_id == 0 else None)
    long_ = kind.startswith("twin") or A.get("prefer_refused") or \
        kind == "split"
    short = rng.random() < 0.5 and not long_
    lo = z["ops"] - 4 if long_ else 5
    na = rng.randint(3, 4) if short else rng.randint(lo, z["ops"])
    nb = rng.randint(3, 4) if short else rng.randint(lo, z["ops"])
    opsA, soloA, chA, _ = pilot(A, rng, na)
    opsB, soloB, chB, _ = pilot(B, rng, nb)
    if soloA[0][0] == "raised" or soloB[0][0] == "raised":
        acc.count("pair_skipped_construction_failed")
        return
    same_layout = layouts_equal(A, B)
    acc.count("pairs:" + kind.split(":")[0])
    acc.count("attacks_refused_by_target_firewall_in_pilots",
              A.get("_refused", 0) + B.get("_refused", 0))
    acc.count("pairs_same_layout" if same_layout else
              "pairs_different_layout")
    # The in-process "solo" runs are not alone in the process (the other
    # pilot, earlier pairs): for every one-field twin and for a sample of the
    # other pairs each environment's operations are also executed in a fresh
    # interpreter, where it really is the only environment.
    p_fresh = 1.0 if kind.startswith("twin") else \
        (0.15 if tier == "quick" else 0.05)
    if rng.random() < p_fresh:
        for who, src, ops, solo in (("A", A, opsA, soloA),
                                    ("B", B, opsB, soloB)):
            fresh = solo_in_child(src, ops)
            acc.count("solo_baselines_from_fresh_process")
            acc.evaluations += 1
            if fresh is not None and fresh != [h64(r) for r in solo]:
                k = next((i for i, (x, y) in enumerate(
                    zip(fresh, [h64(r) for r in solo])) if x != y), None)
                acc.violation(
                    "trace_differs_from_fresh_process",
                    "trace_differs_from_fresh_process",
                    {"pair_kind": kind, "env": who,
                     "first_differing_operation": k,
                     "op": list(ops[k]) if k is not None else None,
                     "note": "environment run after another one was built "
                     "in the same process vs. alone in a fresh interpreter"},
                    {"kind": "iso", "A": public(A), "B": public(B),
                     "opsA": [list(o) for o in opsA],
                     "opsB": [list(o) for o in opsB],
                     "schedule": "a" * len(opsA) + "b" * len(opsB),
                     "shim": False, "fresh": who})
    limit = 70 if short else z["long_merges"]
    n = 0
    for sched in schedules(len(opsA), len(opsB), rng, limit):
        n += 1
        # without shim: tolerated only as the recorded layout finding
        div = interleave(acc, A, B, opsA, opsB, soloA, soloB, sched, False,
                         kind, pair_id, chA, chB)
        acc.count("schedules_plain")
        if same_layout:
            acc.count("schedules_same_layout")
        # switches after both have changed their state
        fa = min(chA) if chA else None
        fb = min(chB) if chB else None
        if fa is not None and fb is not None:
            ia = ib = 0
            armed = False
            switches = 0
            prev = None
            for who in sched:
                if who == "a":
                    ia += 1
                else:
                    ib += 1
                if ia > fa and ib > fb:
                    if armed and prev != who:
                        switches += 1
                    armed = True
                prev = who
            if switches:
                acc.nontrivial(f"pair{pair_id}", sched, "plain")
                acc.count("schedules_switching_after_both_changed")
        if not same_layout or rng.random() < 0.3:
            interleave(acc, A, B, opsA, opsB, soloA, soloB, sched, True,
                       kind, pair_id, chA, chB)
            acc.count("schedules_shim")
            acc.nontrivial(f"pair{pair_id}", sched, "shim")
    if short:
        acc.count("pairs_with_all_merges_enumerated")
    if len(acc.samples) < 3:
        acc.sample({"pair_kind": kind, "same_layout": same_layout,
                    "A": {k: v for k, v in public(A).items() if k != "spec"},
                    "B": {k: v for k, v in public(B).items() if k != "spec"},
                    "opsA": [list(o) for o in opsA[:6]],
                    "opsB": [list(o) for o in opsB[:6]],
                    "schedules": n})


def solo_in_child(src, ops):
    from ..check import worker_env
    env = worker_env()
    try:
        r = subprocess.run(
            ["/venv/bin/python", "-c",
             "from nv.props.iso import child_main; child_main()"],
            input=json.dumps({"src": public(src),
                              "ops": [list(o) for o in ops]}),
            capture_output=True, text=True, env=env, timeout=300,
            cwd=os.path.dirname(os.path.dirname(os.path.dirname(
                os.path.abspath(__file__)))))
        if r.returncode != 0:
            return None
        return json.loads(r.stdout)
    except Exception:       # noqa
        return None


def child_main():
    import sys
    req = json.load(sys.stdin)
    r = Runner(req["src"])
    for op in req["ops"]:
        r.do(tuple(op))
    json.dump([h64(x) for x in r.trace], sys.stdout)


def run(prop, tier, seed, shard, nshards):
    acc = Acc(prop)
    z = SIZES[tier]
    for ci in corpus.shard_range(z["n_pairs"], shard, nshards):
        rng = corpus.case_rng(seed, prop, "pair", ci)
        try:
            pair_case(acc, rng, tier, ci)
        except Exception as e:      # noqa
            import traceback
            acc.inconclusive.append(
                f"pair {ci} harness error {type(e).__name__}: {e} "
                + traceback.format_exc(limit=4)[-400:])
    return acc.result()


def replay(prop, path):
    from ..verdict import classify
    with open(path) as f:
        doc = json.load(f)
    w = doc["violation"]["witness"]
    acc = Acc(prop)

    def src(s):
        s = dict(s)
        if s["type"] == "shipped":
            s["_spec"] = corpus.shipped_spec(s["name"])
        elif s["type"] == "bench":
            s["_spec"] = corpus.generated_case(s["name"], s["seed"])[0]
        else:
            s["_spec"] = spec_from_canonical(s["spec"])
        return s
    A, B = src(w["A"]), src(w["B"])
    opsA = [tuple(o) for o in w["opsA"]]
    opsB = [tuple(o) for o in w["opsB"]]
    ra = Runner(A)
    for o in opsA:
        ra.do(o)
    rb = Runner(B)
    for o in opsB:
        rb.do(o)
    if w.get("fresh"):
        for who, src_, ops, r in (("A", A, opsA, ra), ("B", B, opsB, rb)):
            fresh = solo_in_child(src_, ops)
            if fresh is not None and fresh != [h64(x) for x in r.trace]:
                acc.violation("trace_differs_from_fresh_process",
                              "trace_differs_from_fresh_process",
                              {"env": who}, None)
    else:
        interleave(acc, A, B, opsA, opsB, ra.trace, rb.trace, w["schedule"],
                   w["shim"], "replay", 0, [], [])
    unknown, known = classify(prop, acc.violations)
    for kid, (entry, vs) in known.items():
        print(f"KNOWN-FINDING: property={prop} {entry['what']}")
    if unknown:
        print(f"VIOLATION property={prop} replay={path}")
        print(f"  {json.dumps(unknown[0]['detail'], default=repr)[:300]}")
        return 1
    print(f"replay of {path}: no unlisted violation of {prop}")
    return 0
