"""C17 (a loaded YAML scenario means what the file says) and C18 (malformed
files are rejected)."""
import copy
import os
import tempfile

import numpy as np
import yaml

from .. import corpus, synth
from ..dynmon import C01, C02, C07
from ..harness import Subject, Policy
from ..spec import spec_from_yaml_doc, parse_addr
from ..verdict import Acc

SIZES = {"quick": dict(n_docs=150, steps=120, n_bases=24, per_op=1),
         "thorough": dict(n_docs=30000, steps=300, n_bases=900, per_op=12)}

REQUIRED = ["subnets", "topology", "sensitive_hosts", "os", "services",
            "processes", "exploits", "privilege_escalation",
            "service_scan_cost", "os_scan_cost", "subnet_scan_cost",
            "process_scan_cost", "host_configurations", "firewall"]


# ----------------------------------------------------------------------
def random_style(rng):
    return {
        "access_words": True,       # documented: access is 'user' or 'root'
        "none_word": rng.choice(["none", "none", "None"]),
        "empty_host_fw": rng.random() < 0.2,
        "zero_values": rng.random() < 0.3,
        "explicit_values": True,
        "sensitive_value_in_cfg": rng.random() < 0.3,
        # the address keys of sensitive_hosts and of host firewalls are read
        # as tuples, so their spacing is free
        "addr_spelling": rng.choice(["(%d, %d)", "(%d, %d)", "(%d,%d)",
                                     "( %d, %d )", "(%d,  %d)"]),
        # identical host configurations written once (YAML anchor + aliases)
        "share_identical_host_cfgs": rng.random() < 0.3,
    }


def valid_document(rng, tier):
    """(text, features) - a random document in the documented format."""
    sp = synth.synth(rng, tier, route="yaml")
    feats = set()
    # format features the statement names explicitly
    if rng.random() < 0.25:
        sp.privescs = {}
        feats.add("empty_escalation_section")
    if rng.random() < 0.4:
        n = rng.choice(list(sp.exploits))
        sp.exploits[n]["prob"] = rng.choice([1.0, 1])
        feats.add("prob_one_exploit")
    for e in list(sp.exploits.values()) + list(sp.privescs.values()):
        if isinstance(e["cost"], int) and rng.random() < 0.3:
            e["cost"] = float(e["cost"])
    sp._derive()
    if sp.step_limit is None:
        feats.add("no_step_limit")
    if any(h["firewall"] for h in sp.hosts.values()):
        feats.add("host_denylist")
    if any(h["value"] < 0 for h in sp.hosts.values()):
        feats.add("negative_value")
    if any(not h["processes"] for h in sp.hosts.values()):
        feats.add("empty_process_list")
    if any(not v for v in sp.firewall.values()):
        feats.add("empty_allow_list")
    style = random_style(rng)
    flow = rng.choice([None, False, True])
    text = sp.to_yaml_text(style, flow)
    valid_document.last_spec = sp
    return text, feats


def write_tmp(text):
    fd, path = tempfile.mkstemp(suffix=".yaml", prefix="nv-doc-")
    with os.fdopen(fd, "w") as f:
        f.write(text)
    return path


# ----------------------------------------------------------------------
def field_diff(sc, ref):
    """Loaded Scenario vs independent reading `ref` (a Spec).  Returns a list
    of (field, got, want)."""
    out = []

    def cmp(name, got, want):
        if got != want:
            out.append((name, repr(got)[:160], repr(want)[:160]))

    cmp("subnets", [int(x) for x in sc.subnets], ref.subnets)
    cmp("topology", [[int(x) for x in r] for r in sc.topology], ref.topology)
    cmp("os", list(sc.os), ref.os)
    cmp("services", list(sc.services), ref.services)
    cmp("processes", list(sc.processes), ref.processes)
    cmp("sensitive_hosts", {tuple(k): float(v) for k, v in
                            sc.sensitive_hosts.items()},
        {k: float(v) for k, v in ref.sensitive.items()})
    cmp("sensitive_addresses", sorted(map(tuple, sc.sensitive_addresses)),
        sorted(ref.sensitive))
    cmp("host_addresses", [tuple(a) for a in sc.hosts], list(ref.hosts))
    for a, h in ref.hosts.items():
        if a not in sc.hosts:
            continue
        H = sc.hosts[a]
        cmp(f"host{a}.address", tuple(H.address), a)
        cmp(f"host{a}.os", {k: bool(v) for k, v in H.os.items()},
            {o: o == h["os"] for o in ref.os})
        cmp(f"host{a}.services", {k: bool(v) for k, v in H.services.items()},
            {s: s in h["services"] for s in ref.services})
        cmp(f"host{a}.processes",
            {k: bool(v) for k, v in H.processes.items()},
            {p: p in h["processes"] for p in ref.processes})
        cmp(f"host{a}.value", float(H.value), float(ref.host_value(a)))
        cmp(f"host{a}.firewall",
            {k: sorted(v) for k, v in H.firewall.items() if v},
            {k: sorted(v) for k, v in h["firewall"].items() if v})
    cmp("firewall", {tuple(k): sorted(v) for k, v in sc.firewall.items()},
        {k: sorted(v) for k, v in ref.firewall.items()})

    def norm(defs, key):
        return {n: (e[key], e["os"], float(e["prob"]), float(e["cost"]),
                    int(e["access"])) for n, e in defs.items()}
    cmp("exploits", norm(sc.exploits, "service"),
        norm(ref.exploits, "service"))
    cmp("exploit_order", list(sc.exploits), list(ref.exploits))
    cmp("privescs", norm(sc.privescs, "process"),
        norm(ref.privescs, "process"))
    for k, got in (("service_scan_cost", sc.service_scan_cost),
                   ("os_scan_cost", sc.os_scan_cost),
                   ("subnet_scan_cost", sc.subnet_scan_cost),
                   ("process_scan_cost", sc.process_scan_cost)):
        cmp(k, float(got), float(ref.scan_costs[k]))
    cmp("step_limit", sc.step_limit, ref.step_limit)
    return out


def c17_doc(acc, text, feats, label, rng, steps):
    import nasim
    acc.evaluations += 1
    doc = yaml.safe_load(text)
    ref = spec_from_yaml_doc(doc, name=label, origin="yamlgen:" + label)
    path = write_tmp(text)
    wit = {"kind": "yaml", "label": label, "text": text
           if len(text) < 6000 else text[:6000]}
    try:
        try:
            sc = nasim.load_scenario(path)
        except Exception as e:      # noqa
            acc.violation("valid_document_rejected",
                          "valid_document_rejected:" +
                          ("prob_one" if "probability" in str(e) else
                           type(e).__name__),
                          f"{type(e).__name__}: {str(e)[:200]}", wit)
            return
        diffs = field_diff(sc, ref)
        for name, got, want in diffs[:3]:
            fld = name.split(".")[-1].split("(")[0]
            acc.violation("field_mismatch", f"field_mismatch:{fld}",
                          {"field": name, "loaded": got, "file": want}, wit)
        acc.count("documents_compared")
        for f in feats:
            acc.count("feature:" + f)
        if feats & {"host_denylist", "prob_one_exploit",
                    "empty_escalation_section", "no_step_limit"}:
            acc.nontrivial("doc", text)
        # behavioural differential: the environment built from the file vs
        # the reference model configured from the independent reading
        env = nasim.load(path, fully_obs=rng.random() < 0.5,
                         flat_obs=rng.random() < 0.5)
        subj = Subject(ref, route="yaml", scenario=env.scenario)
        subj.env = env
        subj.actions = list(env.action_space.actions)
        from ..spec import describe_action, flat_descriptors
        from .api import action_signature, desc_signature
        subj.descs = [describe_action(ref, a) for a in subj.actions]
        # the actions the environment offers are the ones the file defines
        got = [action_signature(a) for a in subj.actions]
        want = [desc_signature(d) for d in flat_descriptors(ref)]
        if got != want:
            k = next((i for i in range(min(len(got), len(want)))
                      if got[i] != want[i]), min(len(got), len(want)))
            acc.violation("actions_differ_from_file",
                          "actions_differ_from_file",
                          {"index": k,
                           "environment": got[k] if k < len(got) else None,
                           "file": want[k] if k < len(want) else None}, wit)
        acc.count("action_lists_compared_with_file")
        # ... also through the parameterised action space
        from ..paramspace import decode_vector
        penv = nasim.load(path, flat_actions=False)
        nvec = [int(x) for x in penv.action_space.nvec]
        for _ in range(60):
            v = [rng.randrange(m) for m in nvec]
            try:
                d, _fl = decode_vector(ref, v)
                got_v = action_signature(penv.action_space.get_action(v))
            except Exception as e:      # noqa
                acc.violation("actions_differ_from_file",
                              "actions_differ_from_file:vector_raised",
                              {"vector": v, "error": str(e)[:100]}, wit)
                break
            if got_v != desc_signature(d):
                acc.violation("actions_differ_from_file",
                              "actions_differ_from_file:vector",
                              {"vector": v, "environment": got_v,
                               "file": desc_signature(d)}, wit)
                break
        acc.count("vectors_compared_with_file", 60)
        sub = Acc("C17")
        m1, m2, m3 = C01(sub), C02(sub), C07(sub)
        subj.reset()
        pol = Policy(subj, rng, rng.choice(["attacker", "adversarial",
                                            "mixed"]))
        for _ in range(steps):
            S = subj.lay.status(subj.current().tensor)
            i = pol.choose(S)
            T = subj.step(i, subj.seed_for(i, rng.random() < 0.8, rng))
            m1.on_trans(T)
            m2.on_trans(T)
            m3.single(T)        # the stated probabilities decide the outcome
            if T.raised:
                break
        acc.evaluations += sub.evaluations
        acc.count("behaviour_steps", steps)
        # draws that did not come from the global generator cannot be
        # scripted: their outcomes are pooled over the whole run and tested
        # as frequencies at the end (C07.finalize_frequency)
        pool = acc.extra.setdefault("c07_unscripted", {})
        for key, (n, k) in (sub.extra.get("c07_unscripted") or {}).items():
            n0, k0 = pool.get(key, (0, 0))
            pool[key] = (n0 + n, k0 + k)
        n_deny = sub.counters.get("fwblock:host_denylist_only", 0)
        if n_deny:
            acc.count("behaviour_steps_decided_by_host_denylist", n_deny)
            acc.nontrivial("deny", text, n_deny)
        for v in sub.violations[:2]:
            acc.violation("behaviour_differs_from_file",
                          "behaviour:" + v["mechanism"], v["detail"],
                          {"kind": "yaml", "label": label, "text": text,
                           "dyn": v["witness"]})
        acc.n_violations += max(0, sub.n_violations - len(sub.violations[:2]))
        if len(acc.samples) < 3:
            acc.sample({"label": label, "features": sorted(feats),
                        "text_head": text[:400],
                        "fields_compared": 20 + 6 * len(ref.hosts)})
    finally:
        os.unlink(path)


# ----------------------------------------------------------------------
# C18 fault catalogue.  Each operator: f(doc, info, rng) -> list of
# (position label, mutated doc); [] when not applicable.
def _cp(doc):
    return copy.deepcopy(doc)


def _hosts(doc):
    return list(doc["host_configurations"].keys())


def op_section_missing(doc, info, rng):
    out = []
    for k in REQUIRED:
        d = _cp(doc)
        del d[k]
        out.append((k, d))
    return out


def op_section_unknown(doc, info, rng):
    d = _cp(doc)
    d["honeypots"] = [1]
    return [("honeypots", d)]


def op_section_mistyped(doc, info, rng):
    bad = {"subnets": {"a": 1}, "topology": "full", "sensitive_hosts": [1],
           "os": "linux", "services": "ssh", "processes": {"p": 1},
           "exploits": ["e"], "privilege_escalation": ["p"],
           "service_scan_cost": "1", "os_scan_cost": [1],
           "subnet_scan_cost": "free", "process_scan_cost": {"c": 1},
           "host_configurations": ["h"], "firewall": ["f"]}
    out = []
    for k, v in bad.items():
        d = _cp(doc)
        d[k] = v
        out.append((k, d))
    for v in ("10", 10.5, [10]):
        d = _cp(doc)
        d["step_limit"] = v
        out.append((f"step_limit={v!r}", d))
    return out


def _subnet_variants(doc, value):
    out = []
    for i in range(len(doc["subnets"])):
        d = _cp(doc)
        d["subnets"][i] = value
        out.append((f"subnets[{i}]", d))
    return out


def op_subnets_empty(doc, info, rng):
    d = _cp(doc)
    d["subnets"] = []
    return [("", d)]


def op_subnets_zero(doc, info, rng):
    return _subnet_variants(doc, 0)


def op_subnets_negative(doc, info, rng):
    return _subnet_variants(doc, -2)


def op_subnets_nonint(doc, info, rng):
    return _subnet_variants(doc, 1.5) + _subnet_variants(doc, "2")


def op_topology_missing_row(doc, info, rng):
    out = []
    for i in range(len(doc["topology"])):
        d = _cp(doc)
        del d["topology"][i]
        out.append((f"row{i}", d))
    return out


def op_topology_missing_column(doc, info, rng):
    out = []
    for i in range(len(doc["topology"])):
        d = _cp(doc)
        d["topology"][i] = d["topology"][i][:-1]
        out.append((f"row{i}", d))
    return out


def op_topology_extra_column(doc, info, rng):
    """One row longer than the number of subnets (the matrix is not square)."""
    out = []
    for i in range(len(doc["topology"])):
        for extra in (0, 1, 7):
            d = _cp(doc)
            d["topology"][i] = list(d["topology"][i]) + [extra]
            out.append((f"row{i}+{extra}", d))
    return out


def op_topology_extra_row(doc, info, rng):
    d = _cp(doc)
    n = len(d["topology"])
    d["topology"] = [list(r) for r in d["topology"]] + [[0] * n]
    return [("appended", d)]


def _topo_entry(doc, value):
    out = []
    n = len(doc["topology"])
    for i in range(n):
        for j in range(n):
            d = _cp(doc)
            d["topology"][i][j] = value
            out.append((f"[{i}][{j}]", d))
    return out


def op_topology_entry_two(doc, info, rng):
    return _topo_entry(doc, 2)


def op_topology_entry_negative(doc, info, rng):
    return _topo_entry(doc, -1)


def _list_empty(key):
    def f(doc, info, rng):
        d = _cp(doc)
        d[key] = []
        return [("", d)]
    return f


def _list_dup(key):
    def f(doc, info, rng):
        out = []
        for i, x in enumerate(doc[key]):
            d = _cp(doc)
            d[key].append(x)
            out.append((f"dup {x}", d))
        return out
    return f


def op_sensitive_subnet_out_of_range(doc, info, rng):
    n = len(doc["subnets"])
    out = []
    for s in (n + 2, n + 7, -1, 0):
        d = _cp(doc)
        d["sensitive_hosts"][f"({s}, 0)"] = 10
        out.append((f"subnet {s}", d))
    return out


def op_sensitive_host_out_of_range(doc, info, rng):
    out = []
    for s, size in enumerate(doc["subnets"], start=1):
        for h in (size, size + 3, -1):
            d = _cp(doc)
            d["sensitive_hosts"][f"({s}, {h})"] = 10
            out.append((f"({s}, {h})", d))
    return out


def op_sensitive_duplicate(doc, info, rng):
    out = []
    for k, v in doc["sensitive_hosts"].items():
        a = parse_addr(k)
        for alt in (f"({a[0]},{a[1]})", f"( {a[0]}, {a[1]} )",
                    f"({a[0]},  {a[1]})"):
            if alt in doc["sensitive_hosts"]:
                continue
            d = _cp(doc)
            d["sensitive_hosts"][alt] = v
            out.append((alt, d))
    return out


def _sens_value(value):
    def f(doc, info, rng):
        out = []
        for k in doc["sensitive_hosts"]:
            d = _cp(doc)
            d["sensitive_hosts"][k] = value
            # keep the host configuration consistent with the new value so
            # that only the non-positive value is wrong
            d["host_configurations"][_cfg_key(d, k)].pop("value", None)
            out.append((k, d))
        return out
    return f


def _cfg_key(doc, addr_text):
    a = parse_addr(addr_text)
    for k in doc["host_configurations"]:
        if parse_addr(k) == a:
            return k
    raise KeyError(addr_text)


def _def_ops(section, target_key):
    """Operators for exploits (section='exploits') or escalations."""
    fields = [target_key, "os", "prob", "cost", "access"]

    def each(doc):
        return list((doc.get(section) or {}).keys())

    def missing(doc, info, rng):
        out = []
        for n in each(doc):
            for f in fields:
                d = _cp(doc)
                del d[section][n][f]
                out.append((f"{n}.{f}", d))
        return out

    def setter(field, values):
        def f(doc, info, rng):
            out = []
            for n in each(doc):
                for v in values:
                    d = _cp(doc)
                    d[section][n][field] = v
                    out.append((f"{n}.{field}={v!r}", d))
            return out
        return f

    return {
        "field_missing": missing,
        "unknown_target": setter(target_key, ["telnetd9", "nosuch"]),
        "unknown_os": setter("os", ["templeos", "os_99"]),
        "prob_negative": setter("prob", [-0.1, -1]),
        "prob_above_one": setter("prob", [1.5, 2]),
        "cost_zero": setter("cost", [0, 0.0]),
        "cost_negative": setter("cost", [-1, -0.5]),
        "access_word_invalid": setter("access", ["admin", "none"]),
        "access_level_invalid": setter("access", [3, 0, -1]),
        "not_a_dict": setter_whole(section),
    }


def setter_whole(section):
    def f(doc, info, rng):
        out = []
        for n in list((doc.get(section) or {}).keys()):
            d = _cp(doc)
            d[section][n] = ["ssh", "linux", 0.5, 1, "user"]
            out.append((n, d))
        return out
    return f


def _scan_negative(key):
    def f(doc, info, rng):
        out = []
        for v in (-1, -0.5):
            d = _cp(doc)
            d[key] = v
            out.append((repr(v), d))
        return out
    return f


def op_host_missing(doc, info, rng):
    out = []
    for k in _hosts(doc):
        d = _cp(doc)
        del d["host_configurations"][k]
        out.append((k, d))
    return out


def op_host_superfluous(doc, info, rng):
    out = []
    some = _hosts(doc)[0]
    for s, size in enumerate(doc["subnets"], start=1):
        d = _cp(doc)
        d["host_configurations"][f"({s}, {size})"] = \
            copy.deepcopy(doc["host_configurations"][some])
        out.append((f"({s}, {size})", d))
    d = _cp(doc)
    d["host_configurations"][f"({len(doc['subnets']) + 1}, 0)"] = \
        copy.deepcopy(doc["host_configurations"][some])
    out.append(("new subnet", d))
    return out


def _host_list_op(field, how):
    def f(doc, info, rng):
        out = []
        for k in _hosts(doc):
            cfg = doc["host_configurations"][k]
            d = _cp(doc)
            lst = d["host_configurations"][k][field]
            if how == "unknown":
                lst.append("nosuch_thing")
            else:
                if not cfg[field]:
                    continue
                lst.append(cfg[field][0])
            out.append((k, d))
        return out
    return f


def op_host_unknown_os(doc, info, rng):
    out = []
    for k in _hosts(doc):
        for v in ("templeos", None):
            d = _cp(doc)
            d["host_configurations"][k]["os"] = v
            out.append((f"{k} os={v!r}", d))
    return out


def op_host_key_missing(doc, info, rng):
    out = []
    for k in _hosts(doc):
        for f in ("os", "services", "processes"):
            d = _cp(doc)
            del d["host_configurations"][k][f]
            out.append((f"{k}.{f}", d))
    return out


def _host_fw(make):
    def f(doc, info, rng):
        out = []
        for k in _hosts(doc):
            for label, fw in make(doc, k):
                d = _cp(doc)
                d["host_configurations"][k]["firewall"] = fw
                out.append((f"{k} {label}", d))
                if isinstance(fw, dict) and len(_hosts(doc)) > 1:
                    # ... and the same malformed entry after a valid one
                    first = _hosts(doc)[0]
                    if first in fw:
                        continue
                    d2 = _cp(doc)
                    d2["host_configurations"][k]["firewall"] = dict(
                        [(first, [doc["services"][0]])] + list(fw.items()))
                    out.append((f"{k} {label} (second entry)", d2))
        return out
    return f


def _fw_not_dict(doc, k):
    return [("list", [doc["services"][0]]), ("str", "deny-all")]


def _fw_bad_address(doc, k):
    s = doc["services"][0]
    n = len(doc["subnets"])
    return [("(99, 0)", {"(99, 0)": [s]}), ("word", {"dmz": [s]}),
            (f"({n + 1}, 0)", {f"({n + 1}, 0)": [s]}),
            ("(1, 77)", {"(1, 77)": [s]}), ("(0, 0)", {"(0, 0)": [s]}),
            ("triple", {"(1, 0, 0)": [s]}), ("float", {"(1.0, 0)": [s]})]


def _fw_non_list(doc, k):
    other = _hosts(doc)[-1]
    return [("str", {other: doc["services"][0]}),
            ("dict", {other: {doc["services"][0]: True}})]


def _fw_unknown_service(doc, k):
    other = _hosts(doc)[-1]
    return [("unknown", {other: ["nosuch_service"]})]


def _fw_duplicate(doc, k):
    other = _hosts(doc)[-1]
    s = doc["services"][0]
    return [("dup", {other: [s, s]})]


def op_host_value_non_numeric(doc, info, rng):
    out = []
    for k in _hosts(doc):
        for v in ("high", [1], {"v": 1}):
            d = _cp(doc)
            d["host_configurations"][k]["value"] = v
            out.append((f"{k} value={v!r}", d))
    return out


def op_host_value_contradicts(doc, info, rng):
    out = []
    for k, v in doc["sensitive_hosts"].items():
        ck = _cfg_key(doc, k)
        for delta in (5, -0.5, 1000):
            d = _cp(doc)
            d["host_configurations"][ck]["value"] = v + delta
            out.append((f"{k} value={v + delta}", d))
        # ... also when the host carries a firewall section
        d = _cp(doc)
        d["host_configurations"][ck]["value"] = v + 1
        d["host_configurations"][ck].setdefault(
            "firewall", {_hosts(doc)[0]: [doc["services"][0]]})
        out.append((f"{k} value+1 with firewall", d))
    return out


def op_fw_rule_missing(doc, info, rng):
    out = []
    for k in list(doc["firewall"].keys()):
        a, b = parse_addr(k)
        if doc["topology"][a][b] != 1:
            continue    # a rule for an unconnected pair is not required
        d = _cp(doc)
        del d["firewall"][k]
        out.append((k, d))
    return out


def _fw_rule_set(make):
    def f(doc, info, rng):
        out = []
        for k in list(doc["firewall"].keys()):
            d = _cp(doc)
            d["firewall"][k] = make(doc, doc["firewall"][k])
            out.append((k, d))
        return out
    return f


def op_step_limit_nonpositive(doc, info, rng):
    out = []
    for v in (0, -1, -50):
        d = _cp(doc)
        d["step_limit"] = v
        out.append((repr(v), d))
    return out


def op_subnets_zero_consistent(doc, info, rng):
    """A subnet of size 0 with everything that refers to its hosts removed:
    only the 'positive subnet size' rule is broken."""
    out = []
    for i in range(len(doc["subnets"])):
        s = i + 1
        gone = {k for k in _hosts(doc) if parse_addr(k)[0] == s}
        sens = [k for k in doc["sensitive_hosts"]
                if parse_addr(k)[0] != s]
        if not sens or len(gone) == len(_hosts(doc)):
            continue
        d = _cp(doc)
        d["subnets"][i] = 0
        for k in gone:
            del d["host_configurations"][k]
        d["sensitive_hosts"] = {k: doc["sensitive_hosts"][k] for k in sens}
        for cfg in d["host_configurations"].values():
            if cfg.get("firewall"):
                cfg["firewall"] = {a: v for a, v in cfg["firewall"].items()
                                   if parse_addr(a)[0] != s}
        out.append((f"subnet {s}", d))
    return out


def op_processes_empty_consistent(doc, info, rng):
    d = _cp(doc)
    d["processes"] = []
    d["privilege_escalation"] = {}
    for cfg in d["host_configurations"].values():
        cfg["processes"] = []
    return [("", d)]


def op_services_empty_consistent(doc, info, rng):
    d = _cp(doc)
    d["services"] = []
    d["exploits"] = {}
    for cfg in d["host_configurations"].values():
        cfg["services"] = []
        cfg.pop("firewall", None)
    d["firewall"] = {k: [] for k in d["firewall"]}
    return [("", d)]


def op_host_config_readdressed(doc, info, rng):
    """One configuration moved to an address that does not exist: the number
    of configurations stays right, one host is missing and one is
    superfluous."""
    out = []
    sens = {parse_addr(k) for k in doc["sensitive_hosts"]}
    for k in _hosts(doc):
        a = parse_addr(k)
        if a in sens:
            continue
        new = f"({a[0]}, {doc['subnets'][a[0] - 1] + 2})"
        d = _cp(doc)
        d["host_configurations"] = {
            (new if kk == k else kk): v
            for kk, v in d["host_configurations"].items()}
        for cfg in d["host_configurations"].values():
            if cfg.get("firewall"):
                cfg["firewall"] = {x: v for x, v in cfg["firewall"].items()
                                   if parse_addr(x) != a}
        out.append((f"{k} -> {new}", d))
    return out


def op_host_value_numeric_string(doc, info, rng):
    out = []
    sens = {parse_addr(k) for k in doc["sensitive_hosts"]}
    for k in _hosts(doc):
        if parse_addr(k) in sens:
            continue
        d = _cp(doc)
        d["host_configurations"][k]["value"] = "5"
        out.append((k, d))
    return out


def catalogue():
    ops = {
        "subnets_zero_consistent": op_subnets_zero_consistent,
        "processes_empty_consistent": op_processes_empty_consistent,
        "services_empty_consistent": op_services_empty_consistent,
        "host_config_readdressed": op_host_config_readdressed,
        "host_value_numeric_string": op_host_value_numeric_string,
        "section_missing": op_section_missing,
        "section_unknown": op_section_unknown,

        "subnets_empty": op_subnets_empty,
        "subnets_zero": op_subnets_zero,
        "subnets_negative": op_subnets_negative,
        "subnets_non_int": op_subnets_nonint,
        "topology_missing_row": op_topology_missing_row,
        "topology_missing_column": op_topology_missing_column,
        "topology_extra_column": op_topology_extra_column,
        "topology_extra_row": op_topology_extra_row,
        "topology_entry_two": op_topology_entry_two,
        "topology_entry_negative": op_topology_entry_negative,
        "os_empty": _list_empty("os"), "os_duplicated": _list_dup("os"),
        "services_empty": _list_empty("services"),
        "services_duplicated": _list_dup("services"),
        "processes_empty": _list_empty("processes"),
        "processes_duplicated": _list_dup("processes"),
        "sensitive_subnet_out_of_range": op_sensitive_subnet_out_of_range,
        "sensitive_host_out_of_range": op_sensitive_host_out_of_range,
        "sensitive_duplicate": op_sensitive_duplicate,
        "sensitive_value_zero": _sens_value(0),
        "sensitive_value_negative": _sens_value(-10),
        "sensitive_empty": lambda doc, info, rng: [
            ("", dict(_cp(doc), sensitive_hosts={}))],
        "scan_cost_negative_service": _scan_negative("service_scan_cost"),
        "scan_cost_negative_os": _scan_negative("os_scan_cost"),
        "scan_cost_negative_subnet": _scan_negative("subnet_scan_cost"),
        "scan_cost_negative_process": _scan_negative("process_scan_cost"),
        "host_config_missing": op_host_missing,
        "host_config_superfluous": op_host_superfluous,
        "host_config_key_missing": op_host_key_missing,
        "host_unknown_service": _host_list_op("services", "unknown"),
        "host_duplicated_service": _host_list_op("services", "dup"),
        "host_unknown_process": _host_list_op("processes", "unknown"),
        "host_duplicated_process": _host_list_op("processes", "dup"),
        "host_unknown_os": op_host_unknown_os,
        "host_firewall_not_dict": _host_fw(_fw_not_dict),
        "host_firewall_bad_address": _host_fw(_fw_bad_address),
        "host_firewall_non_list": _host_fw(_fw_non_list),
        "host_firewall_unknown_service": _host_fw(_fw_unknown_service),
        "host_firewall_duplicate": _host_fw(_fw_duplicate),
        "host_value_non_numeric": op_host_value_non_numeric,
        "host_value_contradicts_sensitive": op_host_value_contradicts,
        "firewall_rule_missing": op_fw_rule_missing,
        "firewall_rule_non_list": _fw_rule_set(
            lambda doc, v: {"allow": list(v)} if v else "none"),
        "firewall_rule_duplicated_service": _fw_rule_set(
            lambda doc, v: list(v) + [v[0]] if v else
            [doc["services"][0], doc["services"][0]]),
        "firewall_rule_unknown_service": _fw_rule_set(
            lambda doc, v: list(v) + ["nosuch_service"]),
        "step_limit_non_positive": op_step_limit_nonpositive,
    }
    # one operator per mistyped section (each is guarded differently)
    probe = {k: 0 for k in REQUIRED}
    for label in [lab for lab, _d in op_section_mistyped(
            dict(probe, step_limit=5), None, None)]:
        ops["section_mistyped:" + label] = (
            lambda doc, info, rng, _l=label: [
                (lab, d) for lab, d in op_section_mistyped(doc, info, rng)
                if lab == _l])
    for name, f in _def_ops("exploits", "service").items():
        ops["exploit_" + name] = f
    for name, f in _def_ops("privilege_escalation", "process").items():
        ops["escalation_" + name] = f
    return ops


def c18_base(acc, base_doc, label, rng, per_op):
    import nasim
    ops = catalogue()
    for name, op in ops.items():
        variants = op(base_doc, None, rng)
        if not variants:
            acc.count("not_applicable:" + name)
            continue
        if len(variants) > per_op:
            variants = rng.sample(variants, per_op)
        for pos, doc in variants:
            acc.evaluations += 1
            text = yaml.safe_dump(doc, sort_keys=False,
                                  default_flow_style=rng.choice([None,
                                                                 False]))
            path = write_tmp(text)
            try:
                try:
                    nasim.load_scenario(path)
                    accepted = True
                except Exception:       # noqa  any error = rejected
                    accepted = False
            finally:
                os.unlink(path)
            acc.count("op:" + name)
            acc.nontrivial(label, name, pos)
            if accepted:
                acc.violation("malformed_document_accepted",
                              "accepted:" + name,
                              {"operator": name, "position": pos,
                               "base": label},
                              {"kind": "yamlfault", "operator": name,
                               "position": pos, "base": label,
                               "text": text[:8000]})
            elif len(acc.samples) < 3 and name.startswith("host_value"):
                acc.sample({"operator": name, "position": pos, "base": label,
                            "outcome": "rejected"})


# ----------------------------------------------------------------------
def run(prop, tier, seed, shard, nshards):
    acc = Acc(prop)
    z = SIZES[tier]
    import nasim
    acc.extra["nasim_file"] = nasim.__file__
    if prop == "C17":
        cases = [("shipped", n) for n in corpus.SHIPPED]
        cases += [("doc", i) for i in range(z["n_docs"])]
        for ci in corpus.shard_range(len(cases), shard, nshards):
            ctype, cid = cases[ci]
            rng = corpus.case_rng(seed, prop, ctype, cid)
            try:
                if ctype == "shipped":
                    text = open(corpus.shipped_path(cid)).read()
                    feats = {"shipped"}
                    d = yaml.safe_load(text)
                    if any(c.get("firewall") for c in
                           d["host_configurations"].values()):
                        feats.add("host_denylist")
                else:
                    text, feats = valid_document(rng, tier)
                c17_doc(acc, text, feats, f"{ctype}:{cid}", rng, z["steps"])
                if ctype == "doc" and rng.random() < 0.4:
                    # a second file of the same shape (names renamed or the
                    # name lists re-ordered), loaded right after the first
                    from ..twins import any_twin
                    tw = any_twin(valid_document.last_spec, rng)
                    c17_doc(acc, tw.to_yaml_text(random_style(rng)),
                            {"twin"}, f"twin:{cid}", rng, z["steps"])
                    acc.count("twin_documents")
            except Exception as e:      # noqa
                import traceback
                acc.inconclusive.append(
                    f"case {ctype}:{cid} harness error {type(e).__name__}: "
                    f"{e} " + traceback.format_exc(limit=4)[-400:])
                continue
            acc.count("cases:" + ctype)
        if not acc.extra.get("c07_unscripted"):
            acc.extra.pop("c07_unscripted", None)
        C07.finalize_frequency(acc)
        return acc.result()
    # C18
    cases = [("shipped", n) for n in corpus.SHIPPED]
    cases += [("doc", i) for i in range(z["n_bases"])]
    acc.extra["operators_in_catalogue"] = len(catalogue()) \
        if shard == 0 else 0
    for ci in corpus.shard_range(len(cases), shard, nshards):
        ctype, cid = cases[ci]
        rng = corpus.case_rng(seed, prop, ctype, cid)
        try:
            if ctype == "shipped":
                text = open(corpus.shipped_path(cid)).read()
            else:
                text, _ = valid_document(rng, "quick")
            base = yaml.safe_load(text)
            # the base itself must load, otherwise the faults prove nothing
            path = write_tmp(text)
            try:
                nasim.load_scenario(path)
            finally:
                os.unlink(path)
            c18_base(acc, base, f"{ctype}:{cid}", rng, z["per_op"])
        except Exception as e:      # noqa
            import traceback
            acc.inconclusive.append(
                f"base {ctype}:{cid} harness error {type(e).__name__}: {e} "
                + traceback.format_exc(limit=4)[-400:])
            continue
        acc.count("bases:" + ctype)
    return acc.result()


def replay(prop, path):
    import json
    import random
    import nasim
    with open(path) as f:
        doc = json.load(f)
    w = doc["violation"]["witness"]
    text = w["text"]
    if prop == "C18":
        p = write_tmp(text)
        try:
            try:
                nasim.load_scenario(p)
            except Exception as e:      # noqa
                print(f"replay of {path}: rejected ({type(e).__name__}) - "
                      f"property C18 held")
                return 0
        finally:
            os.unlink(p)
        print(f"VIOLATION property=C18 replay={path}")
        print(f"  operator={w['operator']} position={w['position']}")
        return 1
    acc = Acc("C17")
    c17_doc(acc, text, set(), "replay", random.Random(doc.get("seed", 0)),
            200)
    if acc.n_violations:
        print(f"VIOLATION property=C17 replay={path}")
        for v in acc.violations[:3]:
            print(f"  {v['code']}: {json.dumps(v['detail'])[:300]}")
        return 1
    print(f"replay of {path}: property C17 held")
    return 0
