"""C20: the advertised score upper bound really bounds goal-reaching episodes.

The scenario's whole monotone episode graph is executed on the real
environment through generative_step with succeeding draws; a memoised search
gives the exact maximum total reward over all episodes that end at the first
terminal state, which must not exceed env.get_score_upper_bound().  The hop
clause is decided the same way on a copy of the scenario with all firewalls
opened (minimum number of compromised hosts over terminal states).
"""
import itertools
import sys

import numpy as np

from .. import corpus, synth
from ..harness import Subject
from ..refmodel import Model
from ..spec import Spec, EXPLOIT, PRIVESC, SUB_SCAN
from ..verdict import Acc
from .gen import forced_seed

SIZES = {"quick": dict(n_family=110, n_synth=30, cap=2000),
         "thorough": dict(n_family=1600, n_synth=400, cap=30000)}
NEG = float("-inf")


def family(rng, tight=False):
    """Solvable-by-construction scenarios in the cost/value domain: random
    trees rooted at the internet (chains, stars, sensitive leaves under a
    common parent), occasional chords and second entry points.
    tight: every cost 1, every host on the way worth 1, sensitive hosts in
    the leaves of a branching tree - the advertised bound is then met exactly
    by the best episode (each hop pays for itself, each scan is a loss), so
    anything that saves the attacker a single action exceeds it."""
    nsub = rng.randint(4, 7) if tight else rng.randint(2, 6)
    sizes = [1] * nsub
    for _ in range(0 if tight else rng.randint(0, 3)):
        if sum(sizes) < 9:
            sizes[rng.randrange(nsub)] += 1
    N = nsub + 1
    topo = [[1 if i == j else 0 for j in range(N)] for i in range(N)]
    shape = rng.choice(["tree", "tree", "star", "chain"])
    if tight:
        shape = "tree"
    for b in range(2, N):
        if shape == "chain":
            a = b - 1
        elif shape == "star":
            a = 1
        else:
            a = rng.randint(1, b - 1)
        topo[a][b] = topo[b][a] = 1
    topo[0][1] = topo[1][0] = 1
    if rng.random() < 0.2 and nsub > 2 and not tight:
        p = rng.randint(2, nsub)
        topo[0][p] = topo[p][0] = 1
    if rng.random() < 0.2 and nsub > 2 and not tight:
        a, b = rng.sample(range(1, N), 2)
        topo[a][b] = topo[b][a] = 1
    srvs = ["ssh", "http"][:rng.randint(1, 2)]
    procs = ["tomcat"]
    oss = ["linux"]
    variant = rng.choice(["root", "root", "user+pe", "both"])
    c = (lambda: 1) if tight else (lambda: rng.choice([1, 1, 2]))   # noqa
    if tight:
        variant = "root"
    exploits, privescs = {}, {}
    if variant in ("root", "both"):
        exploits["e_root"] = dict(service=srvs[0], os=None, prob=1.0,
                                  cost=c(), access=2)
    if variant in ("user+pe", "both"):
        exploits["e_user"] = dict(service=srvs[-1], os="linux", prob=1.0,
                                  cost=c(), access=1)
        privescs["pe_root"] = dict(process="tomcat", os=None, prob=1.0,
                                   cost=c(), access=2)
    addrs = [(s + 1, h) for s in range(nsub) for h in range(sizes[s])]
    far = [a for a in addrs if a[0] != 1] or addrs
    n_sens = min(len(far), rng.choice([1, 2, 2, 3]))
    if rng.random() < 0.3 and any(sizes[s] > 1 for s in range(nsub)):
        s = rng.choice([s for s in range(nsub) if sizes[s] > 1]) + 1
        sens = [(s, 0), (s, 1)][:n_sens] + rng.sample(
            [a for a in far if a[0] != s], max(0, min(
                n_sens - 2, len([a for a in far if a[0] != s]))))
    else:
        sens = rng.sample(far, n_sens)
    if tight:
        leaves = [(s, 0) for s in range(2, N)
                  if sum(topo[s][b] for b in range(N) if b != s) == 1]
        sens = leaves or sens
    sensitive = {a: rng.choice([10, 100]) for a in sens}
    route = rng.choice(["yaml", "dict"])
    hosts = {}
    order = list(addrs)
    if rng.random() < 0.4:
        rng.shuffle(order)      # host_configurations in arbitrary order
    for a in order:
        hosts[a] = dict(os="linux", services=list(srvs),
                        processes=list(procs),
                        value=0.0 if a in sensitive else
                        (1 if tight else rng.choice([-5, 0, 0.5, 1, 1])),
                        discovery_value=rng.choice([0, 1])
                        if route == "dict" and not tight else 0.0,
                        firewall={})
    firewall = {}
    for a in range(N):
        for b in range(N):
            if a != b and topo[a][b] == 1:
                if b == 0:
                    firewall[(a, b)] = []
                elif tight or rng.random() < 0.6:
                    firewall[(a, b)] = list(srvs)
                else:
                    firewall[(a, b)] = [rng.choice(
                        [e["service"] for e in exploits.values()])]
    return Spec(name=f"c20-{shape}", origin=f"c20family:{route}",
                subnets=[1] + sizes, topology=topo, os=oss, services=srvs,
                processes=procs, exploits=exploits, privescs=privescs,
                scan_costs=dict(service_scan_cost=c(), os_scan_cost=c(),
                                subnet_scan_cost=c(), process_scan_cost=c()),
                sensitive=sensitive, hosts=hosts, firewall=firewall,
                step_limit=None, bounds=None)


def in_domain(sp):
    costs = [e["cost"] for e in sp.exploits.values()] + \
        [e["cost"] for e in sp.privescs.values()] + \
        list(sp.scan_costs.values())
    if any(c < 1 for c in costs):
        return False
    for a, h in sp.hosts.items():
        if a not in sp.sensitive and h["value"] > 1:
            return False
        if h["discovery_value"] < 0:
            return False
    return True


def open_firewalls(sp):
    can = sp.canonical()
    for k in can["firewall"]:
        can["firewall"][k] = list(sp.services)
    for h in can["hosts"]:
        h[6] = {}
    from ..spec import spec_from_canonical
    return spec_from_canonical(can, name=sp.name + "-open", origin=sp.origin)


class Explorer:
    """Exact optimisation over the monotone episode graph of the real env."""

    def __init__(self, subj, cap):
        self.subj = subj
        self.cap = cap
        self.memo = {}
        self.trans = 0
        self.over = False
        self.useful = [i for i, d in enumerate(subj.descs)
                       if d["kind"] in (EXPLOIT, PRIVESC, SUB_SCAN)
                       and d["prob"] > 0]
        self.seeds = {i: forced_seed(subj.descs[i]["prob"])
                      for i in self.useful}
        self.comp_col = subj.lay.COMP

    def solve(self, state):
        """-> (best total reward to a terminal state or -inf,
               min #compromised hosts at a terminal state or inf, best next)"""
        key = state.tensor.tobytes()
        hit = self.memo.get(key)
        if hit is not None:
            return hit
        subj = self.subj
        if subj.env.goal_reached(state):
            res = (0.0, int(state.tensor[:, self.comp_col].sum()), None)
            self.memo[key] = res
            return res
        if len(self.memo) >= self.cap:
            self.over = True
            return (NEG, float("inf"), None)
        best, best_i, minc = NEG, None, float("inf")
        self.memo[key] = (NEG, float("inf"), None)    # guards cycles (none)
        for i in self.useful:
            if self.over:
                break
            seed = self.seeds[i]
            if seed is None:
                continue
            T = subj.gen(state, i, seed)
            self.trans += 1
            if T.raised or not T.success or np.array_equal(T.pre, T.post):
                continue
            v, c, _ = self.solve(T.ns_obj)
            if v != NEG and T.reward + v > best:
                best, best_i = T.reward + v, i
            if c < minc:
                minc = c
        res = (best, minc, best_i)
        self.memo[key] = res
        return res

    def best_episode(self, state):
        out = []
        while True:
            v, c, i = self.solve(state)
            if i is None:
                return out
            T = self.subj.gen(state, i, self.seeds[i])
            d = self.subj.descs[i]
            out.append([d["kind"], d["name"], list(d["target"]),
                        float(T.reward)])
            state = T.ns_obj


def steiner_min_hosts(sp):
    """Brute force: the fewest subnets (besides the internet) that connect
    the internet with every sensitive subnet, plus the extra sensitive hosts
    that share a subnet."""
    need = {a[0] for a in sp.sensitive}
    others = [s for s in range(1, sp.nsub) if s not in need]
    best = None
    for k in range(len(others) + 1):
        for extra in itertools.combinations(others, k):
            W = need | set(extra) | {0}
            seen = {0}
            fr = [0]
            while fr:
                a = fr.pop()
                for b in W:
                    if b not in seen and sp.conn[a][b]:
                        seen.add(b)
                        fr.append(b)
            if seen == W:
                best = len(W) - 1
                break
        if best is not None:
            break
    if best is None:
        return None
    return best + len(sp.sensitive) - len(need)


def case(acc, sp, route, cap, label):
    if not in_domain(sp):
        acc.count("skipped:outside_cost_value_domain")
        return
    model = Model(sp)
    _plan, ok, _S = model.closure_plan()
    if not ok:
        acc.count("skipped:unsolvable")
        return
    acc.evaluations += 1
    subj = Subject(sp, route=route, fully_obs=True)
    subj.reset()
    bound = float(subj.env.get_score_upper_bound())
    hops = int(subj.env.get_minimum_hops())
    ex = Explorer(subj, cap)
    best, _minc, _i = ex.solve(subj.current())
    acc.extra["states"] = acc.extra.get("states", 0) + len(ex.memo)
    acc.extra["transitions"] = acc.extra.get("transitions", 0) + ex.trans
    wit = {"kind": "bound", "spec": sp.canonical(), "route": route,
           "label": label}
    if ex.over:
        acc.count("skipped:state_cap")
        return
    if best == NEG:
        acc.count("skipped:real_env_unsolvable")
        return
    acc.count("scenarios_solved_exactly")
    branching = False
    # sensitive subnets whose shortest routes from the internet share a subnet
    sens_subs = sorted({a[0] for a in sp.sensitive})
    if len(sens_subs) >= 2:
        paths = [shortest_path_subnets(sp, s) for s in sens_subs]
        for p, q in itertools.combinations(paths, 2):
            if p and q and (set(p[:-1]) & set(q[:-1])) - {0}:
                branching = True
    if branching:
        acc.nontrivial("scen", sp.fingerprint())
        acc.count("branching_scenarios")
    steiner = steiner_min_hosts(sp)
    if best > bound + 1e-6:
        episode = ex.best_episode(subj.current())
        acc.violation(
            "episode_exceeds_advertised_bound",
            "bound_exceeded:" + ("hops_gt_steiner" if steiner is not None
                                 and hops > steiner else "other"),
            {"advertised_bound": bound, "advertised_hops": hops,
             "best_goal_reaching_episode_reward": best,
             "min_hosts_bruteforce": steiner, "episode": episode[:30]},
            wit)
    if abs(best - bound) < 1e-6:
        acc.count("bound_attained_exactly")
        if branching:
            acc.count("bound_attained_exactly_on_branching_scenarios")
    # ---- a later episode on the same environment object: play the best
    # episode with step(), reset, and look again (the exploration above is a
    # function of the reset state, so it is only repeated if that differs)
    first = subj.current().tensor.tobytes()
    st = subj.current()
    while True:
        _v, _c, i = ex.solve(st)
        if i is None:
            break
        T = subj.step(i, ex.seeds[i])
        st = subj.current()
        if T.raised:
            break
        # whenever it is asked, the advertised bound must cover the best
        # goal-reaching episode
        later = float(subj.env.get_score_upper_bound())
        acc.evaluations += 1
        if best > later + 1e-6 and best <= bound + 1e-6:
            acc.violation(
                "episode_exceeds_advertised_bound",
                "bound_exceeded:advertised_later_in_the_episode",
                {"advertised_after_reset": bound,
                 "advertised_during_episode": later,
                 "best_goal_reaching_episode_reward": best,
                 "steps_taken": subj.step_calls}, wit)
            break
    acc.count("bound_queried_during_episode")
    subj.reset()
    acc.count("second_episodes_started")
    if subj.current().tensor.tobytes() != first:
        ex2 = Explorer(subj, cap)
        best2, _m, _i = ex2.solve(subj.current())
        if not ex2.over and best2 != NEG and best2 > bound + 1e-6:
            acc.violation("episode_exceeds_advertised_bound",
                          "bound_exceeded:second_episode_after_reset",
                          {"advertised_bound": bound,
                           "best_goal_reaching_episode_reward": best2,
                           "episode": ex2.best_episode(subj.current())[:30]},
                          wit)
    # ---- hop clause on the scenario with every firewall opened
    spo = open_firewalls(sp)
    so = Subject(spo, route=route, fully_obs=True)
    so.reset()
    hops_o = int(so.env.get_minimum_hops())
    exo = Explorer(so, cap)
    _b, minc, _i = exo.solve(so.current())
    acc.extra["states"] += len(exo.memo)
    acc.extra["transitions"] += exo.trans
    if not exo.over and minc != float("inf"):
        acc.count("hop_clause_evaluated")
        if hops_o > minc:
            acc.violation("hops_exceed_min_compromised_hosts",
                          "hops_exceed_min_hosts",
                          {"advertised_hops": hops_o,
                           "min_hosts_compromised_in_any_goal_episode": minc,
                           "min_hosts_bruteforce": steiner}, wit)
        if steiner is not None and steiner != minc:
            acc.count("dp_min_hosts_differs_from_topological_minimum")
    if len(acc.samples) < 3 and branching:
        acc.sample({"scenario": sp.summary(), "topology": sp.topology,
                    "sensitive": [list(a) for a in sp.sensitive],
                    "advertised_bound": bound, "advertised_hops": hops,
                    "exact_optimum": best, "states": len(ex.memo),
                    "min_hosts_open_firewalls": minc,
                    "best_episode": ex.best_episode(subj.current())[:12]})


def shortest_path_subnets(sp, target):
    prev = {0: None}
    fr = [0]
    while fr:
        nxt = []
        for a in fr:
            for b in range(sp.nsub):
                if b not in prev and sp.conn[a][b]:
                    prev[b] = a
                    nxt.append(b)
        fr = nxt
    if target not in prev:
        return None
    p = []
    x = target
    while x is not None:
        p.append(x)
        x = prev[x]
    return p[::-1]


def hop_only(acc, name):
    """Larger shipped scenarios: the hop clause by brute force only."""
    sp = corpus.shipped_spec(name)
    subj = Subject(sp, route="yaml")
    hops = int(subj.env.get_minimum_hops())
    st = steiner_min_hosts(sp)
    acc.evaluations += 1
    acc.count("hop_clause_bruteforce_only")
    if st is not None and hops > st:
        acc.violation("hops_exceed_min_compromised_hosts",
                      "hops_exceed_min_hosts",
                      {"advertised_hops": hops, "min_hosts_bruteforce": st},
                      {"kind": "bound", "label": "shipped:" + name})


def hop_family_case(acc, rng):
    """Hop clause on larger topologies (up to 9 subnets, up to 5 sensitive
    subnets): every host is vulnerable and every firewall open, so the
    fewest hosts an attacker must compromise is the smallest connected set
    of subnets containing the internet and the sensitive subnets.  The
    episode that compromises exactly that set is executed on the real
    environment; the advertised hop count must not exceed the number of
    hosts it compromised."""
    nsub = rng.randint(4, 9)
    N = nsub + 1
    sizes = [1 + (rng.random() < 0.15) for _ in range(nsub)]
    addrs = [(s + 1, h) for s in range(nsub) for h in range(sizes[s])]
    sens = rng.sample(addrs, min(len(addrs), rng.randint(2, 5)))
    # several topologies over the same subnet sizes and sensitive addresses
    # (anything remembered about one of them must not leak into the next)
    for _variant in range(3):
        _hop_family_one(acc, rng, nsub, N, sizes, addrs, sens)


def _hop_family_one(acc, rng, nsub, N, sizes, addrs, sens):
    topo = [[1 if i == j else 0 for j in range(N)] for i in range(N)]
    if rng.random() < 0.3:
        # spokes and hub: k chains of length L from the internet, each ending
        # in a sensitive subnet, plus a hub (deeper than all of them) next to
        # every chain end - the cheapest connecting set goes through the hub
        k, L = rng.choice([(2, 3), (3, 3), (2, 4), (3, 2)])
        nsub = k * L + 1
        N = nsub + 1
        topo = [[1 if i == j else 0 for j in range(N)] for i in range(N)]
        sizes = [1] * nsub
        addrs = [(s + 1, 0) for s in range(nsub)]
        sens = []
        for c in range(k):
            prev = 0
            for j in range(L):
                s = 1 + c * L + j
                topo[prev][s] = topo[s][prev] = 1
                prev = s
            topo[prev][nsub] = topo[nsub][prev] = 1
            sens.append((prev, 0))
        acc.count("hop_clause_spokes_and_hub")
        return _hop_family_build(acc, rng, nsub, N, sizes, addrs, sens, topo)
    if rng.random() < 0.15:
        # two entrances, each heading its own chain with a sensitive host at
        # the end: the connecting tree is two separate branches from the
        # internet
        L1, L2 = rng.randint(2, 4), rng.randint(2, 4)
        nsub = L1 + L2
        N = nsub + 1
        topo = [[1 if i == j else 0 for j in range(N)] for i in range(N)]
        sizes = [1] * nsub
        addrs = [(s + 1, 0) for s in range(nsub)]
        prev = 0
        for s in range(1, L1 + 1):
            topo[prev][s] = topo[s][prev] = 1
            prev = s
        prev = 0
        for s in range(L1 + 1, nsub + 1):
            topo[prev][s] = topo[s][prev] = 1
            prev = s
        sens = [(L1, 0), (nsub, 0)]
        acc.count("hop_clause_two_entrance_chains")
        return _hop_family_build(acc, rng, nsub, N, sizes, addrs, sens, topo)
    if rng.random() < 0.25:
        # many sensitive subnets (6-9) behind one or two gateways that are
        # not sensitive themselves: the routes to them share the gateways
        k = rng.randint(6, 9)
        gates = rng.choice([1, 1, 2])
        nsub = gates + k + rng.randint(0, 1)
        N = nsub + 1
        topo = [[1 if i == j else 0 for j in range(N)] for i in range(N)]
        sizes = [1] * nsub
        addrs = [(s + 1, 0) for s in range(nsub)]
        topo[0][1] = topo[1][0] = 1
        if gates == 2:
            topo[1][2] = topo[2][1] = 1
        sens = []
        for j in range(k):
            s = gates + 1 + j
            g = rng.randint(1, gates)
            topo[g][s] = topo[s][g] = 1
            sens.append((s, 0))
        if nsub > gates + k:
            a = rng.randint(1, nsub - 1)
            topo[a][nsub] = topo[nsub][a] = 1
        acc.count("hop_clause_6plus_sensitive_subnets_behind_gateways")
        return _hop_family_build(acc, rng, nsub, N, sizes, addrs, sens, topo)
    for b in range(2, N):
        a = rng.randint(1, b - 1) if rng.random() < 0.8 else max(1, b - 1)
        topo[a][b] = topo[b][a] = 1
    topo[0][1] = topo[1][0] = 1
    for _ in range(rng.randint(0, 2)):
        a, b = rng.sample(range(1, N), 2)
        topo[a][b] = topo[b][a] = 1
    if rng.random() < 0.2:
        p = rng.randint(2, nsub)
        topo[0][p] = topo[p][0] = 1
    return _hop_family_build(acc, rng, nsub, N, sizes, addrs, sens, topo)


def _hop_family_build(acc, rng, nsub, N, sizes, addrs, sens, topo):
    if rng.random() < 0.6:
        # the numbering of the subnets is arbitrary: re-label them at random
        # (children before parents, entrances with high numbers, ...)
        perm = list(range(1, N))
        rng.shuffle(perm)
        new = {0: 0}
        new.update({old: perm[old - 1] for old in range(1, N)})
        t2 = [[0] * N for _ in range(N)]
        for a in range(N):
            for b in range(N):
                t2[new[a]][new[b]] = topo[a][b]
        s2 = [0] * nsub
        for old in range(1, N):
            s2[new[old] - 1] = sizes[old - 1]
        topo, sizes = t2, s2
        sens = [(new[a[0]], a[1]) for a in sens]
        addrs = [(s + 1, h) for s in range(nsub) for h in range(sizes[s])]
        acc.count("hop_clause_with_relabelled_subnets")
    hosts = {a: dict(os="linux", services=["ssh"], processes=["p"],
                     value=0.0, discovery_value=0.0, firewall={})
             for a in addrs}
    fw = {(a, b): (["ssh"] if b else []) for a in range(N) for b in range(N)
          if a != b and topo[a][b]}
    sp = Spec(name="hopfam", origin="hopfam:dict", subnets=[1] + sizes,
              topology=topo, os=["linux"], services=["ssh"], processes=["p"],
              exploits={"e": dict(service="ssh", os=None, prob=1.0, cost=1,
                                  access=2)}, privescs={},
              scan_costs=dict(service_scan_cost=1, os_scan_cost=1,
                              subnet_scan_cost=1, process_scan_cost=1),
              sensitive={a: 10 for a in sens}, hosts=hosts, firewall=fw,
              step_limit=None, bounds=None)
    acc.evaluations += 1
    need = {a[0] for a in sp.sensitive}
    others = [s for s in range(1, sp.nsub) if s not in need]
    W = None
    for k in range(len(others) + 1):
        for extra in itertools.combinations(others, k):
            cand = need | set(extra) | {0}
            seen, fr = {0}, [0]
            while fr:
                a = fr.pop()
                for b in cand:
                    if b not in seen and sp.conn[a][b]:
                        seen.add(b)
                        fr.append(b)
            if seen == cand:
                W = cand
                break
        if W:
            break
    subj = Subject(sp, route="dict", fully_obs=True)
    subj.reset()
    hops = int(subj.env.get_minimum_hops())
    idx = {(d["kind"], d["target"]): i for i, d in enumerate(subj.descs)}
    # attack: breadth-first through W, one host per subnet (+ all sensitive)
    order, seen, fr = [], {0}, [0]
    while fr:
        nxt = []
        for a in fr:
            for b in sorted(W):
                if b not in seen and sp.conn[a][b]:
                    seen.add(b)
                    nxt.append(b)
                    order.append(b)
        fr = nxt
    done = False
    for s in order:
        targets = [a for a in sp.sensitive if a[0] == s] or [(s, 0)]
        for t in targets:
            T = subj.step(idx[(EXPLOIT, t)], forced_seed(1.0))
            done = bool(T.done)
        T = subj.step(idx[(SUB_SCAN, targets[0])], forced_seed(1.0))
        done = done or bool(T.done)
    n_comp = int(subj.current().tensor[:, subj.lay.COMP].sum())
    wit = {"kind": "bound", "spec": sp.canonical(), "route": "dict",
           "label": "hopfam"}
    if not done and not subj.env.goal_reached():
        acc.count("hopfam_attack_did_not_reach_goal")
        return
    acc.count("hop_clause_on_large_topologies")
    acc.nontrivial("hopfam", sp.fingerprint())
    if len(need) >= 4:
        acc.count("hop_clause_with_4plus_sensitive_subnets")
    if hops > n_comp:
        acc.violation("hops_exceed_min_compromised_hosts",
                      "hops_exceed_min_hosts",
                      {"advertised_hops": hops,
                       "hosts_compromised_by_a_goal_reaching_episode": n_comp,
                       "subnets_used": sorted(W)}, wit)


def run(prop, tier, seed, shard, nshards):
    sys.setrecursionlimit(10000)
    acc = Acc(prop)
    z = SIZES[tier]
    acc.extra["states"] = 0
    acc.extra["transitions"] = 0
    cases = [("family", i) for i in range(z["n_family"])]
    cases += [("synth", i) for i in range(z["n_synth"])]
    cases += [("shipped", n) for n in corpus.SHIPPED]
    cases += [("edge", i) for i in range(len(EDGES))]
    cases += [("hopfam", i) for i in range(z["n_family"])]
    for ci in corpus.shard_range(len(cases), shard, nshards):
        ctype, cid = cases[ci]
        rng = corpus.case_rng(seed, prop, ctype, cid)
        try:
            if ctype == "family":
                tight = cid % 4 == 3
                sp = family(rng, tight=tight)
                case(acc, sp, sp.origin.split(":")[1], z["cap"],
                     f"family:{cid}")
                if tight:
                    acc.count("family_cases_with_tight_bound")
            elif ctype == "synth":
                sp = synth.synth(rng, "quick", max_hosts=7,
                                 deterministic=True, connected=True,
                                 step_limit=None, live=1.0)
                # move the scenario into the cost/value domain of C20
                for e in list(sp.exploits.values()) + \
                        list(sp.privescs.values()):
                    e["cost"] = max(1, e["cost"])
                for k in sp.scan_costs:
                    sp.scan_costs[k] = max(1, sp.scan_costs[k])
                for h in sp.hosts.values():
                    h["value"] = min(h["value"], 1)
                sp._derive()
                case(acc, sp, sp.origin.split(":")[1], z["cap"],
                     f"synth:{cid}")
            elif ctype == "hopfam":
                hop_family_case(acc, rng)
            elif ctype == "edge":
                sp = EDGES[cid]()
                case(acc, sp, "dict", z["cap"], f"edge:{cid}")
            else:
                sp = corpus.shipped_spec(cid)
                if len(sp.addrs) <= 8 or (tier == "thorough"
                                          and len(sp.addrs) <= 8):
                    case(acc, sp, "yaml", z["cap"], f"shipped:{cid}")
                else:
                    hop_only(acc, cid)
        except Exception as e:      # noqa
            import traceback
            acc.inconclusive.append(
                f"case {ctype}:{cid} harness error {type(e).__name__}: {e} "
                + traceback.format_exc(limit=4)[-400:])
            continue
        acc.count("cases:" + ctype)
    return acc.result()


def _star():
    """internet-1, 1-2, 1-3, 1-4; sensitive hosts in 2, 3, 4; all costs 1,
    root exploits (the witness of fix d17f57d)."""
    N = 5
    topo = [[1 if i == j else 0 for j in range(N)] for i in range(N)]
    for a, b in ((0, 1), (1, 2), (1, 3), (1, 4)):
        topo[a][b] = topo[b][a] = 1
    hosts = {(s, 0): dict(os="linux", services=["ssh"], processes=["p"],
                          value=0.0, discovery_value=0.0, firewall={})
             for s in range(1, 5)}
    fw = {(a, b): (["ssh"] if b else []) for a in range(N) for b in range(N)
          if a != b and topo[a][b]}
    return Spec(name="star", origin="edge:dict", subnets=[1, 1, 1, 1, 1],
                topology=topo, os=["linux"], services=["ssh"],
                processes=["p"],
                exploits={"e": dict(service="ssh", os=None, prob=1.0, cost=1,
                                    access=2)}, privescs={},
                scan_costs=dict(service_scan_cost=1, os_scan_cost=1,
                                subnet_scan_cost=1, process_scan_cost=1),
                sensitive={(2, 0): 100, (3, 0): 100, (4, 0): 100},
                hosts=hosts, firewall=fw, step_limit=None, bounds=None)


def _value_one_chain():
    """chain with value-1 intermediate hosts (edge of the domain)."""
    sp = _star()
    can = sp.canonical()
    can["topology"] = [[1, 1, 0, 0, 0], [1, 1, 1, 0, 0], [0, 1, 1, 1, 0],
                       [0, 0, 1, 1, 1], [0, 0, 0, 1, 1]]
    can["firewall"] = {str((a, b)): (["ssh"] if b else [])
                       for a in range(5) for b in range(5)
                       if a != b and can["topology"][a][b]}
    can["sensitive"] = {"(4, 0)": 100}
    for h in can["hosts"]:
        h[4] = 1.0 if h[0] != [4, 0] else 0.0
        h[5] = 1.0
    from ..spec import spec_from_canonical
    return spec_from_canonical(can, name="chain-v1", origin="edge:dict")


EDGES = [_star, _value_one_chain]


def replay(prop, path):
    import json
    from ..spec import spec_from_canonical
    sys.setrecursionlimit(10000)
    with open(path) as f:
        doc = json.load(f)
    w = doc["violation"]["witness"]
    acc = Acc(prop)
    acc.extra["states"] = 0
    acc.extra["transitions"] = 0
    if w.get("spec"):
        sp = spec_from_canonical(w["spec"])
        route = w.get("route") if w.get("route") in ("yaml", "dict") \
            else "dict"
        case(acc, sp, route, 200000, "replay")
    else:
        hop_only(acc, w["label"].split(":")[1])
    if acc.n_violations:
        print(f"VIOLATION property={prop} replay={path}")
        print(f"  {json.dumps(acc.violations[0]['detail'])[:400]}")
        return 1
    print(f"replay of {path}: property {prop} held")
    return 0
