"""C15 (generator returns a well-formed scenario for every valid parameter set,
and terminates) and C16 (generated and shipped scenarios are solvable)."""
import math
import traceback

import numpy as np

from .. import corpus, rngtap
from ..gentrace import StepCounter, BudgetExceeded
from ..harness import Subject
from ..refmodel import Model
from ..spec import spec_from_scenario, EXPLOIT, PRIVESC, SUB_SCAN
from ..verdict import Acc

SIZES = {"quick": dict(n_random=6000, bench_seeds=20, n_solve=2400),
         "thorough": dict(n_random=900000, bench_seeds=100, n_solve=300000)}
BUDGET = 3_000_000


def expected_subnets(num_hosts):
    """Documented standard formula (DMZ, sensitive, user tree of 5-host
    subnets); only used to choose address bounds inside the domain."""
    dmz = math.ceil(num_hosts / 40)
    sens = math.ceil(num_hosts / 41)
    user = num_hosts - dmz - sens
    subs = [1, dmz, sens] + [5] * (user // 5) + ([user % 5] if user % 5 else [])
    return subs


def domain_params(rng, tier):
    """A parameter set from the documented-valid domain (DESIGN.md §4 C15)."""
    big = tier == "thorough"
    H = rng.choice([3, 3, 4, 5, 6, 7, 8, 9, 11, 12, 16, 23, 38, 40, 41, 42,
                    43] + ([60, 81, 82, 83, 120] if big else [81]))
    if rng.random() < 0.02:
        H = rng.choice([200, 201, 241])     # DMZ larger than a user subnet
    S = rng.randint(1, 10)
    O = rng.randint(1, 4)
    P = rng.randint(1, 4)
    uniform = rng.random() < 0.3
    p = dict(num_hosts=H, num_services=S, num_os=O, num_processes=P,
             uniform=uniform)
    r = rng.random()
    if r < 0.35:
        p["num_exploits"] = None
    elif r < 0.5:
        p["num_exploits"] = S * (O + 1)
    else:
        p["num_exploits"] = rng.randint(1, S * (O + 1))
    r = rng.random()
    if r < 0.35:
        p["num_privescs"] = None
    elif r < 0.5:
        p["num_privescs"] = P * (O + 1)
    else:
        p["num_privescs"] = rng.randint(1, P * (O + 1))
    ne = p["num_exploits"] or S
    npe = p["num_privescs"] or P
    p["restrictiveness"] = rng.randint(1, S + 2)
    p["alpha_H"] = rng.choice([0.1, 0.5, 1.0, 2.0, 7.3])
    p["alpha_V"] = rng.choice([0.1, 0.5, 1.0, 2.0, 7.3])
    p["lambda_V"] = rng.choice([0.3, 1.0, 2.5, 6.0])
    p["r_sensitive"] = rng.choice([10, 100, 0.5])
    p["r_user"] = rng.choice([10, 100, 2.5])
    p["exploit_cost"] = rng.choice([1, 2, 0.5])
    p["privesc_cost"] = rng.choice([1, 3, 0.25])
    for k in ("service_scan_cost", "os_scan_cost", "subnet_scan_cost",
              "process_scan_cost"):
        p[k] = rng.choice([1, 0, 2.5])
    ep = rng.choice(["none", "one", "float", "mixed", "list"])
    p["exploit_probs"] = {"none": None, "one": 1.0,
                          "float": rng.choice([0.5, 0.05, 0.999]),
                          "mixed": "mixed",
                          "list": [rng.choice([1.0, 0.9, 0.3, 0.01])
                                   for _ in range(ne)]}[ep]
    pp = rng.choice(["none", "one", "float", "list"])
    p["privesc_probs"] = {"none": None, "one": 1.0, "float": 0.8,
                          "list": [rng.choice([1.0, 0.6, 0.2])
                                   for _ in range(npe)]}[pp]
    p["random_goal"] = rng.random() < 0.4
    p["base_host_value"] = rng.choice([1, 0, -2, 0.5])
    p["host_discovery_value"] = rng.choice([1, 0, 3])
    p["step_limit"] = rng.choice([None, 100, 5000])
    if rng.random() < 0.4:
        subs = expected_subnets(H)
        p["address_space_bounds"] = rng.choice([tuple, list])(
            (len(subs) + rng.randint(0, 3), max(subs) + rng.randint(0, 3)))
    p["seed"] = rng.randrange(2 ** 31)
    return p


def classify_exception(e, params):
    """Mechanism key of a generator failure (for the known-findings file)."""
    tb = traceback.extract_tb(e.__traceback__)
    inner = tb[-1].name if tb else "?"
    if isinstance(e, ZeroDivisionError) and inner == "_dirichlet_sample" \
            and params.get("alpha_V") == 1.0 and not params.get("uniform"):
        return "zerodivision_in_dirichlet_sample_when_alpha_V_eq_1"
    return f"exception:{type(e).__name__}@{inner}"


def generate_monitored(params, budget=BUDGET):
    """-> (scenario | None, steps, failure | None)"""
    import nasim
    with StepCounter(budget) as sc:
        try:
            s = nasim.generate_scenario(**params)
            return s, sc.steps, None
        except BudgetExceeded as e:
            return None, sc.steps, ("nontermination",
                                    f"nontermination@{e.where.split(':')[0]}",
                                    str(e))
        except Exception as e:      # noqa
            return None, sc.steps, ("exception",
                                    classify_exception(e, params),
                                    f"{type(e).__name__}: {e}"[:300])


# ----------------------------------------------------------------------
def validate(acc, sc, p):
    """Structural validator written from the statement of C15.  Returns a
    list of (clause, detail)."""
    bad = []

    def need(cond, clause, detail=None):
        acc.count("clause:" + clause)
        if not cond:
            bad.append((clause, detail))

    d = sc.scenario_dict
    S, O, P, H = p["num_services"], p["num_os"], p["num_processes"], \
        p["num_hosts"]
    ne = p.get("num_exploits") or S
    npe = p.get("num_privescs") or P
    subnets = list(d["subnets"])
    hosts = d["host"]
    need(len(hosts) == H and sum(subnets[1:]) == H, "num_hosts",
         {"hosts": len(hosts), "subnets": subnets, "requested": H})
    need(subnets[0] == 1 and all(int(x) >= 1 for x in subnets), "subnet_sizes",
         subnets)
    need(set(hosts) == {(s, h) for s in range(1, len(subnets))
                        for h in range(subnets[s])}, "host_addresses")
    need(len(d["os"]) == O and len(set(d["os"])) == O, "num_os", d["os"])
    need(len(d["services"]) == S and len(set(d["services"])) == S,
         "num_services")
    need(len(d["processes"]) == P and len(set(d["processes"])) == P,
         "num_processes")
    need(len(d["exploits"]) == ne, "num_exploits",
         {"got": len(d["exploits"]), "requested": ne})
    need(len(d["privilege_escalation"]) == npe, "num_privescs",
         {"got": len(d["privilege_escalation"]), "requested": npe})
    # topology
    T = np.asarray(d["topology"])
    N = len(subnets)
    ok_shape = T.shape == (N, N)
    need(ok_shape, "topology_shape", T.shape)
    if ok_shape:
        need(bool(np.all((T == 0) | (T == 1))), "topology_entries")
        need(bool(np.array_equal(T, T.T)), "topology_symmetric")
        need(bool(np.all(np.diag(T) == 1)), "topology_self_connected")
        pub = [s for s in range(1, N) if T[s][0] == 1 or T[0][s] == 1]
        need(pub == [1], "only_dmz_public", pub)
        # every subnet is attached to the network
        reach = {1}
        frontier = [1]
        while frontier:
            a = frontier.pop()
            for b in range(1, N):
                if T[a][b] == 1 and b not in reach:
                    reach.add(b)
                    frontier.append(b)
        need(reach == set(range(1, N)), "topology_connected",
             sorted(set(range(1, N)) - reach))
    # hosts
    osl, srvl, procl = list(d["os"]), list(d["services"]), \
        list(d["processes"])
    for a, h in hosts.items():
        need(list(h.os.keys()) == osl and sum(map(bool, h.os.values())) == 1,
             "host_one_os", a)
        need(list(h.services.keys()) == srvl and any(h.services.values()),
             "host_has_service", a)
        need(list(h.processes.keys()) == procl and
             any(h.processes.values()), "host_has_process", a)
        want_v = d["sensitive_hosts"].get(a, p.get("base_host_value", 1))
        need(float(h.value) == float(want_v), "host_value",
             {"host": a, "value": h.value, "want": want_v})
        need(float(h.discovery_value) ==
             float(p.get("host_discovery_value", 1)), "host_discovery_value")
    # exploits / escalations
    ep = p.get("exploit_probs", 1.0)
    for i, (n, e) in enumerate(d["exploits"].items()):
        need(e["service"] in srvl and (e["os"] is None or e["os"] in osl),
             "exploit_references", n)
        need(e["cost"] == p.get("exploit_cost", 1), "exploit_cost", n)
        need(0.0 < float(e["prob"]) <= 1.0, "exploit_prob_range", e["prob"])
        if isinstance(ep, float):
            need(float(e["prob"]) == ep, "exploit_prob_requested")
        elif isinstance(ep, list):
            need(float(e["prob"]) == ep[i], "exploit_prob_requested")
        elif ep == "mixed":
            need(float(e["prob"]) in (0.3, 0.6, 0.9), "exploit_prob_requested")
        need(e["access"] in (1, 2), "exploit_access")
    need(len({(e["service"], e["os"]) for e in d["exploits"].values()}) ==
         len(d["exploits"]), "exploits_distinct")
    pp = p.get("privesc_probs", 1.0)
    for i, (n, e) in enumerate(d["privilege_escalation"].items()):
        need(e["process"] in procl and (e["os"] is None or e["os"] in osl),
             "privesc_references", n)
        need(e["cost"] == p.get("privesc_cost", 1), "privesc_cost", n)
        need(0.0 < float(e["prob"]) <= 1.0, "privesc_prob_range", e["prob"])
        if isinstance(pp, float):
            need(float(e["prob"]) == pp, "privesc_prob_requested")
        elif isinstance(pp, list):
            need(float(e["prob"]) == pp[i], "privesc_prob_requested")
        need(e["access"] in (1, 2), "privesc_access")
    # sensitive hosts
    sens = d["sensitive_hosts"]
    user = [a for a in sens if a[0] >= 3]
    need(len(sens) == 2 and (2, 0) in sens and len(user) == 1 and
         all(a in hosts for a in sens), "sensitive_hosts", list(sens))
    if (2, 0) in sens:
        need(sens[(2, 0)] == p.get("r_sensitive", 10), "r_sensitive")
    if len(user) == 1:
        need(sens[user[0]] == p.get("r_user", 10), "r_user")
        # (which user host is chosen is not part of the statement)
    # firewall
    fw = d["firewall"]
    if ok_shape:
        want_keys = {(a, b) for a in range(N) for b in range(N)
                     if a != b and T[a][b] == 1}
        need(set(fw) == want_keys, "firewall_rules_for_connected_pairs",
             {"missing": sorted(want_keys - set(fw))[:4],
              "extra": sorted(set(fw) - want_keys)[:4]})
        R = p.get("restrictiveness", 5)
        for (a, b), allowed in fw.items():
            al = list(allowed)
            need(all(s in srvl for s in al) and len(set(al)) == len(al),
                 "firewall_defined_services", (a, b))
            if a > 2 and b > 2:
                need(set(al) == set(srvl), "user_subnets_unrestricted",
                     (a, b))
            elif b != 0:
                need(1 <= len(al) <= R, "cross_zone_between_1_and_R",
                     {"rule": (a, b), "allowed": len(al), "R": R})
                if len(al) == R:
                    acc.count("rules_at_restrictiveness_limit")
    # scalar parameters handed through
    for k in ("service_scan_cost", "os_scan_cost", "subnet_scan_cost",
              "process_scan_cost"):
        need(d[k] == p.get(k, 1), "scan_cost_requested", k)
    need(d.get("step_limit") == p.get("step_limit"), "step_limit_requested")
    want_b = p.get("address_space_bounds")
    got_b = tuple(d.get("address_space_bounds"))
    need(got_b == (tuple(want_b) if want_b else (N, max(subnets))),
         "address_space_bounds", got_b)
    return bad


def c15_case(acc, p, label):
    acc.evaluations += 1
    sc, steps, fail = generate_monitored(p)
    acc.extra["max_generator_steps"] = max(
        acc.extra.get("max_generator_steps", 0), steps)
    wit = {"kind": "gen", "params": p}
    if fail is not None:
        kind, mech, msg = fail
        acc.violation(kind, mech, {"message": msg, "steps": steps}, wit)
        acc.count("failed:" + kind)
        return None
    bad = validate(acc, sc, p)
    for clause, detail in bad[:3]:
        acc.violation("malformed:" + clause, "malformed:" + clause, detail,
                      wit)
    acc.count("generated_and_validated")
    if label == "random":
        acc.nontrivial("params", repr(sorted(
            (k, repr(v)) for k, v in p.items() if k != "seed")))
        if p.get("num_privescs") and p["num_privescs"] > p["num_processes"]:
            acc.count("privescs_exceed_processes")
        if p.get("num_exploits") == p["num_services"] * (p["num_os"] + 1):
            acc.count("exploits_at_maximum")
        if p["num_hosts"] > 40:
            acc.count("more_than_40_hosts")
        if p["alpha_V"] == 1.0 and not p["uniform"]:
            acc.count("alpha_V_1_correlated")
    if len(acc.samples) < 3:
        acc.sample({"params": p, "generator_steps": steps,
                    "subnets": list(sc.subnets),
                    "exploits": len(sc.exploits),
                    "privescs": len(sc.privescs)})
    return sc


def bench_params(name, seed):
    import nasim.scenarios.benchmark as b
    p = dict(b.AVAIL_GEN_BENCHMARKS[name])
    p["seed"] = seed
    p.pop("name", None)
    return p


# ----------------------------------------------------------------------
_SEED_CACHE = {}


def forced_seed(prob):
    """A seed whose first draw is <= prob (search beyond the table if the
    probability is tiny).  None if not found."""
    r = rngtap.seed_below(prob)
    if r is not None:
        return r[0]
    key = float(prob)
    if key in _SEED_CACHE:
        return _SEED_CACHE[key]
    found = None
    for s in range(4096, 4096 + 400000):
        np.random.seed(s)
        if np.random.rand() <= prob:
            found = s
            break
    _SEED_CACHE[key] = found
    return found


def solve(acc, sp, subj_kw, label):
    """C16 oracle for one scenario."""
    acc.evaluations += 1
    model = Model(sp)
    plan, ok, _S = model.closure_plan()
    subj = Subject(sp, fully_obs=True, flat_actions=True, flat_obs=True,
                   **subj_kw)
    idx = {(d["kind"], d["name"], d["target"]): i
           for i, d in enumerate(subj.descs)}
    wit = {"kind": "solve", "label": label, "spec": sp.canonical()
           if len(sp.addrs) <= 30 else None,
           "params": subj_kw.get("params")}
    subj.reset()
    terminated = False
    if ok:
        acc.count("model_plans")
        for d in plan:
            i = idx.get((d["kind"], d["name"], d["target"]))
            if i is None:
                # the environment does not offer an action of the scenario:
                # left to the closure over what it does offer
                acc.count("plan_action_not_offered_by_environment")
                terminated = False
                break
            seed = forced_seed(d["prob"])
            if seed is None:
                acc.count("skipped:no_seed_for_tiny_probability")
                return
            T = subj.step(i, seed)
            if T.raised or not T.success:
                acc.count("plan_step_disagrees_with_model")
                terminated = False
                break
            terminated = bool(T.done)
        if terminated:
            acc.count("solved_by_model_plan")
    if not terminated:
        # closure on the real environment itself
        subj.reset()
        state = subj.current()
        changed = True
        useful = [i for i, d in enumerate(subj.descs)
                  if d["kind"] in (EXPLOIT, PRIVESC, SUB_SCAN)]
        real_plan = []
        while changed and not subj.env.goal_reached(state):
            changed = False
            for i in useful:
                seed = forced_seed(subj.descs[i]["prob"])
                if seed is None:
                    continue
                T = subj.gen(state, i, seed)
                if T.raised or not T.success:
                    continue
                if not np.array_equal(T.pre, T.post):
                    state = T.ns_obj
                    real_plan.append(i)
                    changed = True
                    if subj.env.goal_reached(state):
                        break
        if subj.env.goal_reached(state):
            # replay through step to see the terminal flag
            subj.reset()
            for i in real_plan:
                T = subj.step(i, forced_seed(subj.descs[i]["prob"]))
                terminated = bool(T.done)
            acc.count("solved_by_real_closure_only")
            plan = [subj.descs[i] for i in real_plan]
        if not terminated:
            acc.violation(
                "unsolvable", "unsolvable:" + label.split(":")[0],
                {"scenario": sp.summary(), "model_found_plan": ok,
                 "sensitive": list(sp.sensitive),
                 "rooted": [a for a in sp.sensitive if subj.lay.status(
                     state.tensor)[1][model.row[a]] == 2]}, wit)
            return
    acc.count("solved")
    # structural reading of the plan
    n_pe = sum(1 for d in plan if d["kind"] == PRIVESC)
    n_ex = sum(1 for d in plan if d["kind"] == EXPLOIT)
    pivots = 0
    for d in plan:
        if d["kind"] == EXPLOIT and not sp.public[d["target"][0]]:
            pivots += 1
    single = 0
    for (a, b), allowed in sp.firewall.items():
        if b != 0 and len(allowed) == 1:
            single += 1
    if n_pe or (pivots and single):
        acc.nontrivial("scen", sp.fingerprint())
        acc.count("plans_needing_escalation" if n_pe else
                  "plans_pivoting_through_single_service_rules")
    if n_pe:
        acc.count("plans_with_escalation")
    if pivots:
        acc.count("plans_with_pivot")
    if len(acc.samples) < 3:
        acc.sample({"scenario": sp.summary(), "label": label,
                    "plan": [[d["kind"], d["name"], list(d["target"])]
                             for d in plan[:12]],
                    "plan_length": len(plan), "exploits": n_ex,
                    "escalations": n_pe})


def c16_params(rng, tier):
    p = domain_params(rng, tier)
    # avoid the recorded C15 finding (alpha_V == 1 in correlated mode): the
    # generator raises there, which is C15's business, not solvability
    if p["alpha_V"] == 1.0 and not p["uniform"]:
        p["alpha_V"] = 2.0
    r = rng.random()
    if r < 0.3:
        p["restrictiveness"] = 1
    if rng.random() < 0.25:
        p["num_exploits"] = 1
        if isinstance(p["exploit_probs"], list):
            p["exploit_probs"] = 1.0
    if rng.random() < 0.25:
        p["num_privescs"] = rng.randint(1, 2)
        if isinstance(p["privesc_probs"], list):
            p["privesc_probs"] = 1.0
    if p["num_hosts"] > 60:
        p["num_hosts"] = rng.choice([42, 43, 50])
    p.pop("address_space_bounds", None)
    return p


# ----------------------------------------------------------------------
def run(prop, tier, seed, shard, nshards):
    import nasim
    acc = Acc(prop)
    z = SIZES[tier]
    acc.extra["nasim_file"] = nasim.__file__
    if prop == "C15":
        cases = [("random", i) for i in range(z["n_random"])]
        cases += [("bench", (n, s)) for n in corpus.GENERATED
                  for s in range(z["bench_seeds"])]
        cases += [("edge", i) for i in range(len(EDGE_CASES))]
        for ci in corpus.shard_range(len(cases), shard, nshards):
            ctype, cid = cases[ci]
            rng = corpus.case_rng(seed, prop, ctype, cid)
            if ctype == "random":
                p = domain_params(rng, tier)
            elif ctype == "bench":
                p = bench_params(*cid)
            else:
                p = dict(EDGE_CASES[cid])
            c15_case(acc, p, ctype)
            acc.count("cases:" + ctype)
        return acc.result()
    # C16
    cases = [("shipped", n) for n in corpus.SHIPPED]
    cases += [("bench", (n, s)) for n in corpus.GENERATED
              for s in range(z["bench_seeds"])]
    cases += [("random", i) for i in range(z["n_solve"])]
    for ci in corpus.shard_range(len(cases), shard, nshards):
        ctype, cid = cases[ci]
        rng = corpus.case_rng(seed, prop, ctype, cid)
        try:
            if ctype == "shipped":
                sp = corpus.shipped_spec(cid)
                solve(acc, sp, dict(route="yaml"), f"shipped:{cid}")
            else:
                p = bench_params(*cid) if ctype == "bench" \
                    else c16_params(rng, tier)
                sc, steps, fail = generate_monitored(p)
                if fail is not None:
                    acc.count("generator_failed:" + fail[1])
                    continue
                sp = spec_from_scenario(sc, name=f"{ctype}:{cid}",
                                        origin=f"generator:{ctype}")
                solve(acc, sp, dict(route="nasim-generator", scenario=sc,
                                    ), f"{ctype}:{cid}")
                if acc.violations and acc.violations[-1]["witness"] and \
                        acc.violations[-1]["witness"].get("params") is None:
                    acc.violations[-1]["witness"]["params"] = p
        except Exception as e:      # noqa
            acc.inconclusive.append(
                f"case {ctype}:{cid} harness error {type(e).__name__}: {e} "
                + traceback.format_exc(limit=4)[-400:])
            continue
        acc.count("cases:" + ctype)
    return acc.result()


EDGE_CASES = [
    # the two witnesses of the repaired privesc loop (fix 34700db)
    dict(num_hosts=5, num_services=2, num_processes=1, num_os=1,
         num_privescs=2, seed=0),
    dict(num_hosts=5, num_services=2, num_processes=2, num_os=2,
         num_privescs=3, seed=12),
    dict(num_hosts=3, num_services=1, num_os=1, num_processes=1, seed=1),
    dict(num_hosts=3, num_services=1, num_os=1, num_processes=1,
         num_exploits=2, num_privescs=2, restrictiveness=1, seed=5),
    dict(num_hosts=41, num_services=3, num_os=2, num_processes=2, seed=2),
    dict(num_hosts=42, num_services=3, num_os=2, num_processes=2, seed=2,
         random_goal=True),
    dict(num_hosts=82, num_services=4, num_os=3, num_processes=2, seed=3,
         uniform=True),
    dict(num_hosts=10, num_services=10, num_os=4, num_processes=4,
         num_exploits=50, num_privescs=20, seed=4),
    dict(num_hosts=8, num_services=3, num_os=2, num_processes=2, seed=6,
         alpha_V=0.1, alpha_H=0.1, lambda_V=6.0),
    # the recorded finding KF-C15-alphaV1, exercised in every run
    dict(num_hosts=8, num_services=3, num_os=2, num_processes=2, seed=0,
         alpha_V=1.0, uniform=False),
]


def replay(prop, path):
    import json
    with open(path) as f:
        doc = json.load(f)
    w = doc["violation"]["witness"]
    acc = Acc(prop)
    p = w.get("params")
    if p and isinstance(p.get("address_space_bounds"), list):
        p["address_space_bounds"] = tuple(p["address_space_bounds"])
    if prop == "C15":
        c15_case(acc, p, "replay")
    else:
        if p:
            sc, steps, fail = generate_monitored(p)
            if fail:
                print("replay: generator failed", fail)
                return 2
            sp = spec_from_scenario(sc)
            solve(acc, sp, dict(route="nasim-generator", scenario=sc),
                  "replay")
        elif w.get("label", "").startswith("shipped:"):
            solve(acc, corpus.shipped_spec(w["label"].split(":")[1]),
                  dict(route="yaml"), w["label"])
        else:
            from ..spec import spec_from_canonical
            solve(acc, spec_from_canonical(w["spec"]), dict(route="dict"),
                  "replay")
    from ..verdict import classify
    unknown, known = classify(prop, acc.violations)
    for kid, (entry, vs) in known.items():
        print(f"KNOWN-FINDING: property={prop} {entry['what']}")
    if unknown:
        print(f"VIOLATION property={prop} replay={path}")
        print(f"  {unknown[0]['code']}: "
              f"{json.dumps(unknown[0]['detail'], default=repr)[:300]}")
        return 1
    print(f"replay of {path}: property {prop} held")
    return 0
