"""C14: seeded runs and seeded generation are reproducible - in one process,
across processes and across values of PYTHONHASHSEED.

Differential monitor: the shard worker hands the same case list to K child
interpreters, each started with its own PYTHONHASHSEED; every child executes
every case twice and returns canonical fingerprints; the parent compares all
of them.
"""
import hashlib
import json
import os
import subprocess
import sys

import numpy as np

HASH_SEEDS = {"quick": ["0", "1", "4242", "random"],
              "thorough": ["0", "1", "2", "3", "17", "4242", "random"]}
SIZES = {"quick": dict(n_gen=220, bench_seeds=3, n_traj=40, steps=150),
         "thorough": dict(n_gen=30000, bench_seeds=30, n_traj=4000, steps=400)}


# ----------------------------------------------------------------------
# child side
def scenario_fingerprint(sc):
    from ..spec import spec_from_scenario
    can = spec_from_scenario(sc).canonical()
    blob = json.dumps(can, sort_keys=True, default=repr)
    return hashlib.sha256(blob.encode()).hexdigest()[:20], can


def branch_stats(can, restrictiveness):
    """How often the generator's 'choose among exploitable services' branch
    (the one that iterates a set) was reached, recomputed from the result."""
    hosts = can["hosts"]
    exploits = can["exploits"].values()
    by_sub = {}
    for a, os_, srvs, procs, v, dv, fw in hosts:
        s = by_sub.setdefault(a[0], set())
        for e in exploits:
            if e["service"] in srvs and (e["os"] is None or e["os"] == os_):
                s.add(e["service"])
    reached = 0
    for k in can["firewall"]:
        a, b = [int(x) for x in k.strip("()").split(",")]
        if b == 0 or (a > 2 and b > 2):
            continue
        if len(by_sub.get(b, ())) >= restrictiveness:
            reached += 1
    return reached


def build_source(src):
    """-> (scenario, spec)"""
    import nasim
    from ..spec import spec_from_canonical, spec_from_scenario
    from .. import corpus
    if src["type"] == "shipped":
        sc = nasim.make_benchmark_scenario(src["name"])
        return sc, corpus.shipped_spec(src["name"])
    if src["type"] == "bench":
        sc = nasim.make_benchmark_scenario(src["name"], seed=src["seed"])
        return sc, spec_from_scenario(sc)
    sp = spec_from_canonical(src["spec"])
    if src["route"] == "yaml":
        import tempfile
        fd, path = tempfile.mkstemp(suffix=".yaml", prefix="nv-")
        with os.fdopen(fd, "w") as f:
            f.write(sp.to_yaml_text())
        try:
            sc = nasim.load_scenario(path)
        finally:
            os.unlink(path)
        return sc, sp
    return sp.to_scenario(), sp


def run_case(case):
    import nasim
    if case["type"] == "gen_global":
        # no seed argument: the caller has seeded NumPy's global generator,
        # which then is the only source of randomness for the generation and
        # for the steps taken right afterwards (no re-seeding in between)
        from nasim.envs import NASimEnv
        p = dict(case["params"])
        p.pop("seed", None)
        np.random.seed(case["np_seed"])
        sc = nasim.generate_scenario(**p)
        fp, can = scenario_fingerprint(sc)
        env = NASimEnv(sc)
        env.reset()
        h = hashlib.sha256(fp.encode())
        for a in range(min(25, env.action_space.n)):
            o, r, term, trunc, info = env.step(a)
            h.update(np.asarray(o).tobytes())
            h.update(repr((float(r), bool(info["success"]))).encode())
        return {"fp": h.hexdigest()[:20],
                "branch": branch_stats(can, p.get("restrictiveness", 5))}
    if case["type"] == "gen":
        p = dict(case["params"])
        if isinstance(p.get("address_space_bounds"), list):
            p["address_space_bounds"] = tuple(p["address_space_bounds"])
        sc = nasim.generate_scenario(**p)
        fp, can = scenario_fingerprint(sc)
        return {"fp": fp,
                "branch": branch_stats(can, p.get("restrictiveness", 5))}
    if case["type"] == "bench":
        sc = nasim.make_benchmark_scenario(case["name"], seed=case["seed"])
        fp, can = scenario_fingerprint(sc)
        import nasim.scenarios.benchmark as b
        r = b.AVAIL_GEN_BENCHMARKS[case["name"]]["restrictiveness"]
        return {"fp": fp, "branch": branch_stats(can, r)}
    if case["type"] == "actions":
        # index -> action mapping of the flat space (C11)
        from nasim.envs import NASimEnv
        from .api import action_signature
        sc, sp = build_source(case["source"])
        env = NASimEnv(sc, flat_actions=True)
        sigs = [sorted((k, repr(v)) for k, v in action_signature(a).items())
                for a in env.action_space.actions]
        blob = json.dumps(sigs, sort_keys=True)
        return {"fp": hashlib.sha256(blob.encode()).hexdigest()[:20],
                "n": len(sigs)}
    # trajectory
    from nasim.envs import NASimEnv
    if case.get("warmup"):
        # another scenario of the same shape is built and used first
        wsc, _wsp = build_source(case["warmup"])
        wenv = NASimEnv(wsc, **case["modes"])
        wenv.reset()
        np.random.seed(1)
        for a in range(min(6, wenv.action_space.n)):
            wenv.step(a)
    sc, sp = build_source(case["source"])
    env = NASimEnv(sc, **case["modes"])
    def play(render=False):
        import contextlib
        import io
        np.random.seed(case["seed"])
        env.reset()
        h = hashlib.sha256()
        chance = 0
        for n_, a in enumerate(case["actions"]):
            if render:
                # unrelated work of the caller between the steps: arrays of
                # the sizes the environment itself uses, filled and dropped
                # again (whatever the allocator hands out next must not show
                # in the trajectory)
                w = env.current_state.tensor.shape[1]
                junk = [np.full(n, 3.25 + n_, dtype=np.float32)
                        for n in (w, w, w + 1, env.current_state.tensor.size,
                                  env.last_obs.tensor.size)]
                junk.append(np.full((env.last_obs.tensor.shape[0], w), -8.5,
                                    dtype=np.float32))
                del junk
            if render and n_ % 7 == 3:
                # read-only calls between the steps
                with contextlib.redirect_stdout(io.StringIO()):
                    try:
                        env.render_state(mode="ansi")
                        env.render_obs(mode="ansi")
                        env.get_action_mask()
                        env.goal_reached()
                    except Exception:       # noqa (rendering is not C14's)
                        pass
            if a == "reset":
                env.reset()
                h.update(b"reset")
                continue
            o, r, term, trunc, info = env.step(int(a))
            h.update(env.current_state.tensor.tobytes())
            h.update(np.asarray(o).tobytes())
            h.update(repr((float(r), bool(term), bool(trunc),
                           bool(info["success"]), float(info["value"]),
                           bool(info["connection_error"]),
                           bool(info["permission_error"]),
                           bool(info["undefined_error"]))).encode())
            if info["undefined_error"]:
                chance += 1
        return h.hexdigest()[:20], chance
    def lookahead():
        """The same seeded action sequence as a roll-out of
        generative_step from state to state (what a planning agent does),
        the environment itself staying at its initial state."""
        np.random.seed(case["seed"])
        env.reset()
        s = env.current_state.copy()
        h = hashlib.sha256()
        for a in case["actions"]:
            if a == "reset":
                s = env.current_state.copy()
                continue
            s, o, r, done, info = env.generative_step(s, int(a))
            h.update(s.tensor.tobytes())
            h.update(o.tensor.tobytes())    # an Observation object here
            h.update(repr((float(r), bool(done), bool(info["success"]),
                           bool(info["undefined_error"]))).encode())
        return h.hexdigest()[:20]
    fp, chance = play()
    try:
        fp_look = [lookahead(), lookahead()]
    except Exception as e:      # noqa
        fp_look = ["raised:" + type(e).__name__] * 2
    # the same seeded run once more on the very same environment object
    fp_same_env, _ = play()
    # ... and once more with read-only calls (render, mask, goal query)
    # between the steps, on a fresh environment object
    env = NASimEnv(sc, **case["modes"])
    fp_render, _ = play(render=True)
    return {"fp": fp, "chance": chance, "fp_same_env": fp_same_env,
            "fp_render": fp_render, "fp_look": fp_look}


def child_main():
    import random
    cases = json.load(sys.stdin)
    # every child walks the case list in its own order, so a result that
    # depends on what was generated before (process-global state) shows up
    # as a difference between children
    order = list(range(len(cases)))
    random.Random(int(os.environ.get("NV_CHILD_ORDER", "0"))).shuffle(order)
    out = [None] * len(cases)
    for j in order:
        c = cases[j]
        res = {}
        try:
            res = run_case(c)
            again = run_case(c)
            res["fp_again"] = again["fp"]
        except Exception as e:      # noqa
            res = {"err": f"{type(e).__name__}: {str(e)[:120]}"}
        out[j] = res
    json.dump({"hashseed": os.environ.get("PYTHONHASHSEED"),
               "hash_probe": hash("srv_0") & 0xffff, "results": out},
              sys.stdout)


# ----------------------------------------------------------------------
# shard side
def gen_params(rng, tier):
    """Parameter sets steered into the hash-order-sensitive code: many
    services, many exploits, high lambda_V, small restrictiveness."""
    S = rng.choice([3, 5, 7, 10, 10, 14])
    O = rng.randint(1, 3)
    p = dict(num_hosts=rng.choice([5, 8, 12, 16, 23, 35, 43]),
             num_services=S, num_os=O, num_processes=rng.randint(1, 3),
             num_exploits=rng.choice([None, S, min(S * (O + 1), 2 * S)]),
             num_privescs=rng.choice([None, None, 2, 3, 4]),
             restrictiveness=rng.randint(1, max(1, S // 2)),
             lambda_V=rng.choice([1.0, 3.0, 6.0]),
             alpha_V=rng.choice([0.5, 2.0, 7.0]),
             alpha_H=rng.choice([0.5, 2.0, 7.0]),
             uniform=rng.random() < 0.25 and S <= 10,
             exploit_probs=rng.choice([None, "mixed", 1.0]),
             privesc_probs=rng.choice([None, 1.0]),
             random_goal=rng.random() < 0.3,
             seed=rng.randrange(2 ** 31))
    if p["num_privescs"] is not None:
        # more escalations than processes: the generator has to re-draw OSs
        p["num_processes"] = rng.randint(1, 2)
        p["num_privescs"] = min(p["num_privescs"],
                                p["num_processes"] * (O + 1))
    return p


def spawn_children(cases, tier):
    from ..check import worker_env
    outs = []
    for n, hs in enumerate(HASH_SEEDS[tier]):
        env = worker_env()
        env["PYTHONHASHSEED"] = hs
        env["NV_CHILD_ORDER"] = str(n)
        r = subprocess.run(
            ["/venv/bin/python", "-c",
             "from nv.props.repro import child_main; child_main()"],
            input=json.dumps(cases), capture_output=True, text=True, env=env,
            cwd=os.path.dirname(os.path.dirname(os.path.dirname(
                os.path.abspath(__file__)))), timeout=3000)
        if r.returncode != 0:
            outs.append({"hashseed": hs, "error": r.stderr[-400:]})
        else:
            outs.append(json.loads(r.stdout))
    return outs


def run(prop, tier, seed, shard, nshards):
    from .. import corpus, synth
    from ..harness import Subject, Policy
    from ..verdict import Acc
    acc = Acc(prop)
    z = SIZES[tier]
    cases = []
    meta = []
    allc = [("gen", i) for i in range(z["n_gen"])]
    allc += [("bench", (n, s)) for n in corpus.GENERATED
             for s in range(z["bench_seeds"])]
    allc += [("traj", i) for i in range(z["n_traj"])]
    for ci in corpus.shard_range(len(allc), shard, nshards):
        ctype, cid = allc[ci]
        rng = corpus.case_rng(seed, prop, ctype, cid)
        if ctype == "gen":
            cases.append({"type": "gen", "params": gen_params(rng, tier)})
            if cid % 5 == 0:
                # the same parameters without a seed argument, after the
                # global generator was seeded
                meta.append((ctype, cid))
                ctype = "gen_global"
                cases.append({"type": "gen_global",
                              "params": cases[-1]["params"],
                              "np_seed": rng.randrange(2 ** 31)})
        elif ctype == "bench":
            cases.append({"type": "bench", "name": cid[0], "seed": cid[1]})
        else:
            # pilot: choose the action sequence here, replay it everywhere
            r = rng.random()
            if r < 0.3:
                name = rng.choice(corpus.SHIPPED)
                src = {"type": "shipped", "name": name}
                sp = corpus.shipped_spec(name)
                subj = Subject(sp, route="yaml")
            elif r < 0.5:
                name = rng.choice(corpus.GENERATED[:5])
                s = rng.randrange(50)
                src = {"type": "bench", "name": name, "seed": s}
                sp, sc = corpus.generated_case(name, s)
                subj = Subject(sp, scenario=sc, route="nasim-generator")
            else:
                sp = synth.synth(rng, tier)
                if rng.random() < 0.35:
                    # the same exploit (and escalation) defined twice under
                    # two names: equal as actions, distinct as definitions
                    from ..spec import spec_from_canonical
                    can = sp.canonical()
                    n0 = rng.choice(can["exploit_order"])
                    can["exploits"][n0 + "_alt"] = dict(can["exploits"][n0])
                    can["exploit_order"] = list(can["exploit_order"]) + \
                        [n0 + "_alt"]
                    if can.get("privesc_order"):
                        p0 = rng.choice(can["privesc_order"])
                        can["privescs"][p0 + "_alt"] = \
                            dict(can["privescs"][p0])
                        can["privesc_order"] = \
                            list(can["privesc_order"]) + [p0 + "_alt"]
                    sp = spec_from_canonical(can, name=sp.name,
                                             origin=sp.origin)
                    dup = True
                else:
                    dup = False
                route = sp.origin.split(":")[1]
                src = {"type": "synth", "route": route,
                       "spec": sp.canonical(), "dup": dup}
                subj = Subject(sp, route=route)
            k = rng.randrange(2 ** 31)
            np.random.seed(k)
            subj.reset()
            pol = Policy(subj, rng, rng.choice(["attacker", "mixed"]))
            actions = []
            for _ in range(z["steps"]):
                i = pol.choose(subj.lay.status(subj.current().tensor))
                actions.append(int(i))
                o, r_, term, trunc, info = subj.env.step(int(i))
                if (term or trunc) and rng.random() < 0.5:
                    actions.append("reset")
                    subj.env.reset()
            if src.get("dup"):
                acc.count("trajectories_on_scenarios_with_duplicate_"
                          "definitions")
            cases.append({"type": "traj", "source": src, "seed": k,
                          "actions": actions,
                          "modes": {"fully_obs": rng.random() < 0.5,
                                    "flat_actions": True,
                                    "flat_obs": rng.random() < 0.5}})
            if src["type"] == "synth" and rng.random() < 0.5:
                # the same seeded run, but after a twin scenario of the same
                # shape (renamed / re-ordered names) was built in the process
                from ..twins import any_twin
                tw = any_twin(sp, rng)
                meta.append((ctype, cid))
                cases.append(dict(cases[-1], warmup={
                    "type": "synth", "route": src["route"],
                    "spec": tw.canonical()}, group=len(cases) - 1))
        meta.append((ctype, cid))
    outs = spawn_children(cases, tier)
    errs = [o for o in outs if "error" in o]
    for o in errs:
        acc.inconclusive.append(f"child PYTHONHASHSEED={o['hashseed']} "
                                f"failed: {o['error'][-200:]}")
    outs = [o for o in outs if "error" not in o]
    acc.extra["distinct_hash_probes"] = len({o["hash_probe"] for o in outs})
    acc.extra["children"] = len(outs)
    if len(outs) < 2:
        acc.inconclusive.append("fewer than two child interpreters answered")
        return acc.result()
    for j, (c, (ctype, cid)) in enumerate(zip(cases, meta)):
        acc.evaluations += 1
        res = [o["results"][j] for o in outs]
        if any("err" in r for r in res):
            errs = sorted({r.get("err", "ok") for r in res})
            if len(errs) > 1:
                acc.violation("outcome_differs_between_processes",
                              f"outcome_differs:{ctype}",
                              {"outcomes": errs}, {"kind": "repro",
                                                   "case": c})
            else:
                acc.count("case_failed_everywhere:" + errs[0].split(":")[0])
            continue
        fps = [r["fp"] for r in res]
        again = [r["fp_again"] for r in res]
        wit = {"kind": "repro", "case": c}
        if ctype == "traj" and any(r.get("fp_render", r["fp"]) != r["fp"]
                                   for r in res):
            acc.violation("read_only_calls_change_seeded_run",
                          "read_only_calls_change_seeded_run",
                          {"plain": fps, "with_render_mask_goal_queries":
                           [r.get("fp_render") for r in res]}, wit)
        elif ctype == "traj" and any(r.get("fp_same_env") != r["fp"]
                                     for r in res):
            acc.violation("not_reproducible_on_same_environment",
                          "not_reproducible_on_same_environment",
                          {"first": fps,
                           "again_on_same_env": [r.get("fp_same_env")
                                                 for r in res]}, wit)
        elif ctype == "traj" and (
                any(r["fp_look"][0] != r["fp_look"][1] for r in res) or
                len({r["fp_look"][0] for r in res}) > 1):
            acc.violation("lookahead_rollout_not_reproducible",
                          "lookahead_rollout_not_reproducible",
                          {"fingerprints_twice_per_process":
                           [r["fp_look"] for r in res]}, wit)
        elif any(a != b for a, b in zip(fps, again)):
            acc.violation("not_reproducible_in_process",
                          f"not_reproducible_in_process:{ctype}",
                          {"first": fps, "second": again}, wit)
        elif len(set(fps)) > 1:
            acc.violation(
                "not_reproducible_across_processes",
                f"not_reproducible_across_processes:{ctype}",
                {"fingerprints": fps,
                 "hashseeds": [o["hashseed"] for o in outs]}, wit)
        acc.count("cases:" + ctype)
        if c.get("warmup"):
            base = [o["results"][c["group"]] for o in outs]
            acc.count("trajectories_replayed_after_a_twin_scenario")
            if any("err" in b for b in base) or \
                    [b["fp"] for b in base] != fps:
                acc.violation(
                    "trajectory_depends_on_previously_built_environment",
                    "trajectory_depends_on_previous_environment",
                    {"alone": [b.get("fp") for b in base],
                     "after_twin": fps}, wit)
        if ctype in ("gen", "bench", "gen_global"):
            if res[0]["branch"] > 0:
                acc.nontrivial("gen", c.get("params") and
                               repr(sorted(c["params"].items(),
                                           key=lambda kv: kv[0])) or
                               (c.get("name"), c.get("seed")))
                acc.count("generated_cases_reaching_set_choice_branch")
                acc.count("set_choice_branch_rules", res[0]["branch"])
        else:
            acc.count("lookahead_rollouts_compared", 2 * len(res))
            if res[0]["chance"] >= 5:
                acc.nontrivial("traj", fps[0], c["seed"])
                acc.count("trajectories_with_5_chance_steps")
        if len(acc.samples) < 3:
            acc.sample({"case": {k: v for k, v in c.items()
                                 if k != "actions"},
                        "fingerprints": fps,
                        "hashseeds": [o["hashseed"] for o in outs]})
    return acc.result()


def replay(prop, path):
    with open(path) as f:
        doc = json.load(f)
    c = doc["violation"]["witness"]["case"]
    if c.get("warmup"):
        base = {k: v for k, v in c.items() if k not in ("warmup", "group")}
        outs = spawn_children([base, dict(c, group=0)], "quick")
        a = [o["results"][0].get("fp") for o in outs if "error" not in o]
        b = [o["results"][1].get("fp") for o in outs if "error" not in o]
        if a != b:
            print(f"VIOLATION property={prop} replay={path}")
            print("  alone:", a, "after twin:", b)
            return 1
        print(f"replay of {path}: property {prop} held")
        return 0
    outs = spawn_children([c], "thorough")
    fps = [o["results"][0].get("fp") for o in outs if "error" not in o]
    ag = [o["results"][0].get("fp_again") for o in outs if "error" not in o]
    se = [o["results"][0].get("fp_same_env", o["results"][0].get("fp"))
          for o in outs if "error" not in o]
    if len(set(fps)) > 1 or fps != ag or fps != se:
        print(f"VIOLATION property={prop} replay={path}")
        print("  fingerprints:", fps, ag)
        return 1
    print(f"replay of {path}: property {prop} held ({fps})")
    return 0
