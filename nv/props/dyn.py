"""Workers for the dynamics properties C01-C08 and C13: real environment under
generated scenarios, hostile histories and scripted draws, observed by the
monitors of nv.dynmon."""
import numpy as np

from .. import corpus, synth
from ..dynmon import MONITORS, C07, C13, C06
from ..harness import Subject, Policy, random_arg, bfs
from ..verdict import Acc

SIZES = {
    # (synth scenarios, steps each, micro BFS scenarios, shipped steps,
    #  generated scenarios)
    "quick": dict(n_synth=320, steps=320, n_micro=40, shipped_steps=300,
                  n_gen=10, bfs_cap=1500, n_large=2, n_ring=24, n_twin=30, n_wide=16),
    "thorough": dict(n_synth=12000, steps=700, n_micro=1800,
                     shipped_steps=2000, n_gen=240, bfs_cap=8000, n_large=24,
                     n_ring=1200, n_twin=1500, n_wide=800),
}
BFS_SHIPPED = {"quick": ["tiny", "tiny-hard"],
               "thorough": ["tiny", "tiny-hard", "tiny-small", "small",
                            "small-honeypot", "small-linear"]}
GEN_SMALL = ["tiny-gen", "tiny-gen-rgoal", "small-gen", "small-gen-rgoal",
             "medium-gen"]
GEN_LARGE = ["huge-gen", "pocp-1-gen", "large-gen", "pocp-2-gen"]


def build_cases(tier):
    z = SIZES[tier]
    cases = []
    for i in range(z["n_synth"]):
        cases.append(("synth", i))
    for i in range(z["n_micro"]):
        cases.append(("micro", i))
    for n in corpus.SHIPPED:
        cases.append(("shipped", n))
    for n in BFS_SHIPPED[tier]:
        cases.append(("shipped_bfs", n))
    for i in range(z["n_gen"]):
        cases.append(("generated", i))
    for i in range(z.get("n_large", 2)):
        cases.append(("generated_large", i))
    for i in range(z.get("n_ring", 24)):
        cases.append(("ring", i))
    for i in range(z.get("n_twin", 30)):
        cases.append(("twin", i))
    for i in range(z.get("n_wide", 16)):
        cases.append(("wide", i))
    return cases


def modes_for(prop, rng):
    fully = rng.random() < (0.5 if prop == "C08" else 0.3)
    m = dict(fully_obs=fully, flat_actions=rng.random() < 0.8,
             flat_obs=rng.random() < 0.5)
    if rng.random() < 0.25:
        # a rarely used constructor argument; nothing is rendered
        m["render_mode"] = rng.choice(["ansi", "human"])
    return m


def episode(prop, mon, subj, rng, nsteps, acc):
    """One long history on `subj`: steps under scripted draws, look-aheads on
    pooled states, resets at arbitrary points."""
    obs, info = subj.reset()
    mon.on_reset(subj, obs, info)
    kinds = ["attacker", "adversarial", "mixed", "uniform"]
    pol = Policy(subj, rng, rng.choice(kinds))
    pool = []
    probes = {}
    p_succeed = rng.choice([0.5, 0.7, 0.9])
    p_reset = rng.choice([0.0, 0.004, 0.02])
    p_look = {"C13": 0.5, "C04": 0.15, "C06": 0.3}.get(prop, 0.2)
    stop_on_end = rng.random() < 0.5
    p_query = rng.choice([0.0, 0.01, 0.05])
    for k in range(nsteps):
        if (k == 0 and rng.random() < 0.5) or rng.random() < p_query:
            # informational queries between the steps: they answer questions
            # about the scenario or the state and must leave the dynamics
            # alone (what follows is monitored as always)
            env = subj.env
            try:
                env.get_minimum_hops()
                env.get_score_upper_bound()
                env.goal_reached()
                if subj.modes["flat_actions"]:
                    env.get_action_mask()
                env.scenario.get_description()
                env.generate_initial_state()
                st_rng = np.random.get_state()
                env.generate_random_initial_state()
                np.random.set_state(st_rng)
            except Exception as e:      # noqa
                acc.violation("informational_query_raised",
                              "informational_query_raised:" +
                              type(e).__name__, str(e)[:200], None)
            acc.count("informational_queries_between_steps")
        cur = subj.current()
        S = subj.lay.status(cur.tensor)
        i = pol.choose(S)
        avoid = getattr(subj, "avoid_subnet", None)
        if avoid is not None and k < 0.7 * nsteps:
            # one-sided attack: stay out of one of the entrances for most of
            # the episode, so that subnets are approached "from behind"
            for _ in range(12):
                if subj.descs[i]["target"][0] != avoid:
                    break
                i = pol.choose(S)
        succeed = rng.random() < p_succeed
        seed = subj.seed_for(i, succeed, rng)
        T = None
        if rng.random() < 0.02:
            # the do-nothing action (only reachable as an Action object or
            # through an undefined parameterised combination)
            from nasim.envs.action import NoOp
            from ..spec import noop_desc
            nd = noop_desc()
            if prop == "C07":
                mon.single(subj.gen(cur, None, seed, arg=NoOp(), desc=nd))
            elif prop == "C13":
                snap = mon.snapshot(subj)
                Tg = subj.gen(cur, None, seed, arg=NoOp(), desc=nd)
                mon.check_gen(Tg, snap)
                mon.check_pair(Tg, subj.step(None, seed, arg=NoOp(), desc=nd))
            else:
                mon.on_trans(subj.step(None, seed, arg=NoOp(), desc=nd))
            acc.count("noop_steps")
            continue
        if rng.random() < 0.04 and prop not in ("C07", "C13"):
            # the same action demanding ROOT on the pivot / on the host
            arg, dd = subj.root_requiring(i)
            if arg is not None:
                mon.on_trans(subj.step(i, seed, arg=arg, desc=dd))
                acc.count("steps_with_req_access_root")
                continue
        if prop == "C07" and rng.random() < 0.05:
            # an Action object with its own success probability (scans too)
            pr = rng.choice([0.0, 0.3, 0.7])
            obj, dd = subj.root_requiring(i, prob=pr)
            lo = subj.seed_for(i, True, rng, desc=dd)
            hi = subj.seed_for(i, False, rng, desc=dd)
            mon.pair(subj.gen(cur, i, lo, arg=obj, desc=dd),
                     subj.gen(cur, i, hi, arg=obj, desc=dd))
            acc.count("pairs_with_custom_probability")
        if prop == "C07":
            lo = subj.seed_for(i, True, rng)
            hi = subj.seed_for(i, False, rng)
            mon.pair(subj.gen(cur, i, lo), subj.gen(cur, i, hi))
            T = subj.step(i, seed, arg=random_arg(subj, i, rng))
            mon.single(T)
        elif prop == "C13":
            snap = mon.snapshot(subj)
            Tg = subj.gen(cur, i, seed)
            mon.check_gen(Tg, snap)
            T = subj.step(i, seed, arg=random_arg(subj, i, rng))
            mon.check_pair(Tg, T)
        else:
            T = subj.step(i, seed, arg=random_arg(subj, i, rng))
            mon.on_trans(T)
        # look-ahead on a pooled (non-current) or the current state
        if rng.random() < p_look:
            if pool and rng.random() < 0.7:
                ps, ph, pbytes = pool[rng.randrange(len(pool))]
            else:
                ps, ph, pbytes = subj.current(), subj.hist, None
            j = pol.choose(subj.lay.status(ps.tensor))
            s2 = subj.seed_for(j, rng.random() < 0.6, rng)
            if prop == "C13":
                snap = mon.snapshot(subj)
                Tg = subj.gen(ps, j, s2, hist=ph)
                mon.check_gen(Tg, snap)
            elif prop == "C07":
                mon.single(subj.gen(ps, j, s2, hist=ph))
            else:
                mon.on_trans(subj.gen(ps, j, s2, hist=ph))
            if pbytes is not None and ps.tensor.tobytes() != pbytes:
                acc.violation("pooled_state_mutated", "pooled_state_mutated",
                              "a state object kept from an earlier step was "
                              "modified later", None)
        if prop == "C13" and pool and rng.random() < 0.25:
            # generative_step must be a function of (state, action, draw)
            # only: repeat a look-ahead made when the state was pooled -
            # possibly many steps, look-aheads and resets ago
            ps, ph, pbytes = pool[rng.randrange(len(pool))]
            for (j, s2, digest) in probes.get(id(ps), ())[:2]:
                Tp = subj.gen(ps, j, s2, hist=ph)
                mon.check_repeat(Tp, digest)
        if rng.random() < 0.08 and T is not None and T.ns_obj is not None:
            pool.append((T.ns_obj, subj.hist, T.ns_obj.tensor.tobytes()))
            if prop == "C13":
                pr = []
                for _ in range(2):
                    j = pol.choose(subj.lay.status(T.ns_obj.tensor))
                    s2 = subj.seed_for(j, rng.random() < 0.8, rng)
                    pr.append((j, s2, mon.digest(
                        subj.gen(T.ns_obj, j, s2))))
                probes[id(T.ns_obj)] = pr
            if len(pool) > 12:
                pool.pop(rng.randrange(len(pool)))
        if prop == "C06" and rng.random() < 0.03:
            mon.synthetic(subj, rng, 4)
        if prop in ("C04", "C13") and rng.random() < 0.02:
            mon.fresh_initial_state(subj)
        ended = T is not None and (T.done or T.trunc)
        if (ended and stop_on_end) or rng.random() < p_reset:
            for _ in range(1 + (rng.random() < 0.1)):   # reset (twice)
                obs, info = subj.reset(seed=rng.choice([None, None, 7]))
                mon.on_reset(subj, obs, info)
            pool = [p for p in pool if rng.random() < 0.5]
    mon.end_episode(subj)
    # pooled states must still be what they were
    for ps, ph, pbytes in pool:
        if ps.tensor.tobytes() != pbytes:
            acc.violation("pooled_state_mutated", "pooled_state_mutated",
                          "a state object kept from an earlier step was "
                          "modified later", None)


def bfs_case(prop, mon, subj, rng, acc, cap):
    obs, info = subj.reset()
    mon.on_reset(subj, obs, info)
    if prop == "C07":
        pend = {}

        def on(T):
            k = (T.pre.tobytes(), T.aidx)
            if T.desc["kind"] in ("exploit", "privesc"):
                if k in pend:
                    a = pend.pop(k)
                    lo, hi = (a, T) if a.u <= T.u else (T, a)
                    mon.pair(lo, hi)
                else:
                    pend[k] = T
            else:
                mon.single(T)
    elif prop == "C13":
        def on(T):
            mon.check_gen(T, on.snap)
        on.snap = mon.snapshot(subj)
    else:
        on = mon.on_trans
    ns, nt, complete = bfs(subj, on, max_states=cap, rng=rng, reset=False)
    acc.extra["states"] = acc.extra.get("states", 0) + ns
    acc.extra["transitions"] = acc.extra.get("transitions", 0) + nt
    acc.count("bfs_scenarios")
    if complete:
        acc.count("bfs_scenarios_fully_enumerated")
        acc.extra.setdefault("exhaustive_scenarios", []).append(
            {"fp": subj.fp, "states": ns, "transitions": nt})
    mon.end_episode(subj)


def run(prop, tier, seed, shard, nshards):
    acc = Acc(prop)
    z = SIZES[tier]
    cases = build_cases(tier)
    import nasim
    acc.extra["nasim_file"] = nasim.__file__
    use_contracts = prop in ("C07", "C13")
    if use_contracts:
        from .. import contracts
        contracts.attach()
    for ci in corpus.shard_range(len(cases), shard, nshards):
        ctype, cid = cases[ci]
        rng = corpus.case_rng(seed, prop, ctype, cid)
        mon = MONITORS[prop](acc)
        modes = modes_for(prop, rng)
        try:
            if ctype == "synth":
                sp = synth.synth(rng, tier)
                subj = Subject(sp, route=sp.origin.split(":")[1], **modes)
                episode(prop, mon, subj, rng, z["steps"], acc)
            elif ctype == "twin":
                # a scenario, then - in the same process, right after it - a
                # twin of the same shape with renamed or re-ordered names
                from ..twins import any_twin
                sp0 = synth.synth(rng, "quick", max_hosts=8, live=1.0)
                route = sp0.origin.split(":")[1]
                warm = Subject(sp0, route=route, **modes)
                episode(prop, MONITORS[prop](acc), warm, rng, 40, acc)
                sp = any_twin(sp0, rng)
                subj = Subject(sp, route=route, **modes)
                episode(prop, mon, subj, rng, z["steps"] // 2, acc)
            elif ctype == "wide":
                sp = synth.wide(rng)
                subj = Subject(sp, route=sp.origin.split(":")[1], **modes)
                episode(prop, mon, subj, rng, z["steps"], acc)
            elif ctype == "ring":
                sp = synth.two_entrances(rng) if cid % 2 else synth.ring(rng)
                subj = Subject(sp, route=sp.origin.split(":")[1], **modes)
                pubs = [b for b in range(1, len(sp.subnets))
                        if sp.topology[0][b]]
                if len(pubs) >= 2 and (cid % 2 or rng.random() < 0.7):
                    subj.avoid_subnet = rng.choice(pubs)
                    acc.count("ring_cases_attacked_from_one_entrance")
                episode(prop, mon, subj, rng, z["steps"], acc)
            elif ctype == "micro":
                sp = synth.micro(rng)
                subj = Subject(sp, route=sp.origin.split(":")[1], **modes)
                bfs_case(prop, mon, subj, rng, acc, z["bfs_cap"])
            elif ctype == "shipped":
                sp = corpus.shipped_spec(cid)
                subj = Subject(sp, route="yaml", **modes)
                episode(prop, mon, subj, rng, z["shipped_steps"], acc)
            elif ctype == "shipped_bfs":
                sp = corpus.shipped_spec(cid)
                subj = Subject(sp, route="yaml", **modes)
                bfs_case(prop, mon, subj, rng, acc, z["bfs_cap"])
            elif ctype == "generated_large":
                # state tensors with > 1000 entries, hundreds of actions
                name = GEN_LARGE[cid % len(GEN_LARGE)]
                sp, sc = corpus.generated_case(name, 2000 + cid)
                subj = Subject(sp, route="nasim-generator", scenario=sc,
                               **modes)
                episode(prop, mon, subj, rng, z["steps"], acc)
            elif ctype == "generated":
                name = GEN_SMALL[cid % len(GEN_SMALL)]
                sp, sc = corpus.generated_case(name, 1000 + cid)
                subj = Subject(sp, route="nasim-generator", scenario=sc,
                               **modes)
                episode(prop, mon, subj, rng, z["steps"], acc)
        except Exception as e:      # harness-level failure: never "held"
            import traceback
            acc.inconclusive.append(
                f"case {ctype}:{cid} harness error {type(e).__name__}: {e} "
                + traceback.format_exc(limit=3)[-300:])
            continue
        if not acc.samples:
            acc.sample({"scenario": subj.spec.summary(), "modes": subj.modes,
                        "driver": ctype})
        acc.count(f"cases:{ctype}")
        acc.count(f"route:{subj.route}")
        if not subj.row_order_ok:
            acc.inconclusive.append(f"row order differs in {ctype}:{cid}")
    if prop == "C07":
        C07.finalize_frequency(acc)
    if use_contracts:
        contracts.drain(acc, ["actionresult_invariant"] if prop == "C07" else
                        ["network_perform_action_post",
                         "hostvector_perform_action_post",
                         "state_get_observation_post"])
    return acc.result()


def replay(prop, path):
    """Re-execute the witness of a dynamics violation with the monitor on."""
    import json
    from ..spec import spec_from_canonical, noop_desc
    from nasim.envs.action import NoOp
    with open(path) as f:
        doc = json.load(f)
    w = doc["violation"]["witness"]
    if not w or w.get("kind") != "dyn":
        print("replay: witness carries no executable history")
        return 2
    sp = spec_from_canonical(w["spec"])
    route = w["route"] if w["route"] in ("yaml", "dict") else "dict"
    subj = Subject(sp, route=route, **w["modes"])
    acc = Acc(prop)
    mon = MONITORS[prop](acc)

    def do(via, aidx, seed, state=None):
        kw = {}
        if aidx is None:
            kw = dict(arg=NoOp(), desc=noop_desc())
        if via == "step":
            return subj.step(aidx, seed, **kw)
        return subj.gen(state or subj.current(), aidx, seed, **kw)

    obs, info = subj.reset()
    mon.on_reset(subj, obs, info)
    for aidx, seed in w["hist"]:
        T = do("step", aidx, seed)
        if prop == "C07":
            mon.single(T)
        elif prop != "C13":
            mon.on_trans(T)
    op = w["op"]
    if op[0] in ("step", "gen"):
        if prop == "C07":
            cur = subj.current()
            lo = subj.seed_for(op[1], True) if op[1] is not None else op[2]
            hi = subj.seed_for(op[1], False) if op[1] is not None else op[2]
            mon.pair(do("gen", op[1], lo, cur), do("gen", op[1], hi, cur))
            mon.single(do(op[0], op[1], op[2]))
        elif prop == "C13":
            snap = mon.snapshot(subj)
            Tg = do("gen", op[1], op[2])
            mon.check_gen(Tg, snap)
            mon.check_pair(Tg, do("step", op[1], op[2]))
        else:
            mon.on_trans(do(op[0], op[1], op[2]))
    mon.end_episode(subj)
    if acc.n_violations:
        for v in acc.violations[:3]:
            print(f"VIOLATION property={prop} replay={path}")
            print(f"  clause={v['code']} mechanism={v['mechanism']} "
                  f"detail={json.dumps(v['detail'], default=repr)[:300]}")
        return 1
    print(f"replay of {path}: property {prop} held")
    return 0
