"""Worker process: python -m nv.worker <PROP> <tier> <seed> <shard> <nshards> <out>
or                 python -m nv.worker <PROP> --replay <file>"""
import importlib
import json
import os
import sys
import warnings


def main():
    from nv import registry
    prop = sys.argv[1]
    cfg = registry.PROPS[prop]
    import nasim
    repo = os.path.realpath(os.environ.get("NV_REPO", "/repo"))
    here = os.path.realpath(nasim.__file__)
    if not here.startswith(repo + os.sep):
        print(f"nasim imported from {here}, expected under {repo}")
        sys.exit(3)
    mod = importlib.import_module(cfg["module"])
    if sys.argv[2] == "--replay":
        sys.exit(mod.replay(prop, sys.argv[3]))
    tier, seed, shard, nshards, out = sys.argv[2:7]
    caught = []
    from nv.cover import LineCoverage
    import nasim.envs  # noqa  (make sure the subject's modules are loaded)
    import nasim.scenarios.generator  # noqa
    import nasim.scenarios.loader  # noqa
    cov = LineCoverage()
    cov.start()
    with warnings.catch_warnings(record=True) as wl:
        warnings.simplefilter("always")
        res = mod.run(prop, tier, int(seed), int(shard), int(nshards))
        res.setdefault("extra", {})["subject_coverage"] = cov.report()
        cov.stop()
        for w in wl[:200]:
            caught.append(f"{w.category.__name__}: {str(w.message)[:120]}")
    res.setdefault("extra", {})["warnings_captured"] = len(caught)
    if caught:
        res["extra"]["warning_samples"] = sorted(set(caught))[:5]
    with open(out, "w") as f:
        json.dump(res, f, default=repr)


if __name__ == "__main__":
    main()
