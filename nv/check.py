"""./check <ID> --tier quick|thorough | --replay <file>

Parent process of every check: starts fresh worker processes (so the current
working tree of the repository is imported, never a stale module), merges
their observations, applies the known-findings file, writes the evidence
file and prints the verdict.
exit 0 = held on everything observed, 1 = violation (VIOLATION line),
2 = inconclusive (INCONCLUSIVE line; never folded into 'held').
"""
import argparse
import json
import os
import shutil
import subprocess
import sys
import tempfile
import time

ROOT = os.path.dirname(os.path.dirname(os.path.abspath(__file__)))
PY = "/venv/bin/python"


def ensure_deps():
    deps = os.path.join(ROOT, ".deps")
    if os.path.isdir(os.path.join(deps, "icontract")) and \
            os.path.isdir(os.path.join(deps, "jsonschema")):
        return
    subprocess.run(["/bin/bash", os.path.join(ROOT, "setup.sh")],
                   stdout=subprocess.DEVNULL, stderr=subprocess.DEVNULL)


def worker_env():
    env = dict(os.environ)
    repo = os.environ.get("NV_REPO", "/repo")
    env["NV_REPO"] = repo
    env["PYTHONPATH"] = os.pathsep.join(
        [repo, ROOT, os.path.join(ROOT, ".deps")])
    env.setdefault("PYTHONHASHSEED", "0")
    env["NASIM_VERIF"] = "1"
    env["PYTHONDONTWRITEBYTECODE"] = "1"
    for k in ("OMP_NUM_THREADS", "OPENBLAS_NUM_THREADS", "MKL_NUM_THREADS"):
        env[k] = "1"
    return env


def run_shards(prop, tier, seed, nshards, timeout, extra_args=()):
    tmp = tempfile.mkdtemp(prefix="nv-run-")
    procs = []
    env = worker_env()
    for sh in range(nshards):
        out = os.path.join(tmp, f"shard{sh}.json")
        log = open(os.path.join(tmp, f"shard{sh}.log"), "w")
        p = subprocess.Popen(
            [PY, "-X", "faulthandler", "-m", "nv.worker", prop, tier,
             str(seed), str(sh), str(nshards), out, *extra_args],
            cwd=ROOT, env=env, stdout=log, stderr=subprocess.STDOUT)
        procs.append((p, out, log, sh))
    results, problems = [], []
    deadline = time.time() + timeout
    for p, out, log, sh in procs:
        left = max(1.0, deadline - time.time())
        try:
            rc = p.wait(timeout=left)
        except subprocess.TimeoutExpired:
            p.kill()
            p.wait()
            problems.append(f"shard {sh}: watchdog fired after {timeout}s")
            log.close()
            continue
        log.close()
        if rc != 0 or not os.path.exists(out):
            tail = open(log.name).read()[-600:]
            problems.append(f"shard {sh}: worker exit {rc}: {tail}")
            continue
        with open(out) as f:
            results.append(json.load(f))
    shutil.rmtree(tmp, ignore_errors=True)
    return results, problems


def main(argv=None):
    from nv import registry, verdict
    ap = argparse.ArgumentParser()
    ap.add_argument("prop")
    ap.add_argument("--tier", default=os.environ.get("VERIF_TIER", "quick"),
                    choices=["quick", "thorough"])
    ap.add_argument("--replay")
    ap.add_argument("--seed", type=int,
                    default=int(os.environ.get("VERIF_SEED", "0")))
    ap.add_argument("--shards", type=int)
    a = ap.parse_args(argv)
    prop = a.prop.upper()
    if prop not in registry.PROPS:
        print(f"unknown property {prop}")
        return 2
    ensure_deps()
    sys.path.insert(0, os.path.join(ROOT, ".deps"))
    cfg = registry.PROPS[prop]
    t0 = time.time()
    if a.replay:
        env = worker_env()
        r = subprocess.run([PY, "-m", "nv.worker", prop, "--replay",
                            os.path.abspath(a.replay)], cwd=ROOT, env=env)
        return r.returncode
    nshards = a.shards or cfg["shards"][a.tier]
    results, problems = run_shards(prop, a.tier, a.seed, nshards,
                                   cfg["timeout"][a.tier])
    merged = verdict.merge(results) if results else {
        "evaluations": 0, "counters": {}, "samples": [], "violations": [],
        "n_violations": 0, "mech_counts": {}, "inconclusive": [],
        "extra": {}, "distinct_nontrivial": 0, "distinct_groups": 0}
    merged["inconclusive"].extend(problems)
    # coverage floors: the deciding monitors must have been reached
    floors = cfg.get("floors", {}).get(a.tier, {})
    floor_report = {}
    for key, need in floors.items():
        if key == "evaluations":
            have = merged["evaluations"]
        elif key == "distinct_nontrivial":
            have = merged["distinct_nontrivial"]
        elif key.startswith("extra:"):
            have = merged["extra"].get(key[6:], 0)
        else:
            have = merged["counters"].get(key, 0)
        floor_report[key] = {"need": need, "have": have}
        if have < need:
            merged["inconclusive"].append(
                f"coverage floor missed: {key} {have} < {need}")
    unknown, known_seen = verdict.classify(prop, merged["violations"])
    # violations beyond the stored witnesses: classify by mechanism counts
    known_mechs = {e["mechanism"] for e in verdict.load_known().get("open", [])
                   if e["property"] == prop}
    unknown_mech_total = sum(
        n for k, n in merged["mech_counts"].items()
        if k.split("|", 1)[1] not in known_mechs)
    if unknown or unknown_mech_total:
        v = "violated"
    elif merged["inconclusive"]:
        v = "inconclusive"
    else:
        v = "held"
    wall = time.time() - t0
    path, ok, msg = verdict.write_evidence(
        prop, a.tier, a.seed, cfg["level"], merged, cfg["rule"], wall,
        cfg["assumptions"], v, known_seen, floor_report)
    for kid, (entry, vs) in known_seen.items():
        print(f"KNOWN-FINDING: property={prop} {entry['what']} "
              f"[{kid}; seen {len(vs)}x in this run]")
    c = merged["counters"]
    print(f"{prop} {a.tier} seed={a.seed}: evaluations={merged['evaluations']}"
          f" distinct_nontrivial={merged['distinct_nontrivial']} "
          f"violations={merged['n_violations']} wall={wall:.1f}s "
          f"evidence={os.path.relpath(path, ROOT)}")
    if not ok and v != "violated":
        print(f"INCONCLUSIVE property={prop} evidence does not validate: "
              f"{msg}")
        return 2
    if v == "violated":
        shown = unknown or merged["violations"]
        for viol in shown[:3]:
            rp = verdict.write_replay(prop, viol, a.seed, a.tier)
            print(f"VIOLATION property={prop} replay={rp}")
            print(f"  clause={viol['code']} mechanism={viol['mechanism']} "
                  f"detail={json.dumps(viol['detail'], default=repr)[:400]}")
        return 1
    if v == "inconclusive":
        for r in merged["inconclusive"][:5]:
            print(f"INCONCLUSIVE property={prop} {r[:400]}")
        return 2
    return 0


if __name__ == "__main__":
    sys.exit(main())
