"""Scenario twins: same shape as a given Spec but with the names renamed or
the name lists permuted.  Building the twin right after the original in one
process exposes anything remembered from the previous scenario (class-level
layout caches, name -> column maps, memoised action lists)."""
from .spec import spec_from_canonical


def _rename_in(can, kind_key, mapping, host_idx):
    can[kind_key] = [mapping[n] for n in can[kind_key]]
    for h in can["hosts"]:
        if host_idx == 1:
            h[1] = mapping[h[1]]
        else:
            h[host_idx] = sorted(mapping[n] for n in h[host_idx])


def renamed_twin(sp, rng):
    """Same sizes, same structure, different OS / service / process names."""
    can = sp.canonical()
    which = rng.choice(["services", "processes", "os", "all"])
    if which in ("services", "all"):
        m = {n: n + "_x" for n in can["services"]}
        _rename_in(can, "services", m, 2)
        for e in can["exploits"].values():
            e["service"] = m[e["service"]]
        for h in can["hosts"]:
            h[6] = {s: sorted(m[x] for x in v) for s, v in h[6].items()}
        can["firewall"] = {k: sorted(m[x] for x in v)
                           for k, v in can["firewall"].items()}
    if which in ("processes", "all"):
        m = {n: n + "_y" for n in can["processes"]}
        _rename_in(can, "processes", m, 3)
        for e in can["privescs"].values():
            if e["process"] is not None:
                e["process"] = m[e["process"]]
    if which in ("os", "all"):
        m = {n: n + "_z" for n in can["os"]}
        _rename_in(can, "os", m, 1)
        for e in list(can["exploits"].values()) + \
                list(can["privescs"].values()):
            if e["os"] is not None:
                e["os"] = m[e["os"]]
    return spec_from_canonical(can, name=sp.name + "-renamed",
                               origin=sp.origin)


def permuted_twin(sp, rng):
    """Same names, same hosts, but the OS / service / process lists are in a
    different order (so the documented column order changes)."""
    can = sp.canonical()
    changed = False
    for key in ("os", "services", "processes"):
        lst = list(can[key])
        if len(lst) > 1:
            for _ in range(5):
                rng.shuffle(lst)
                if lst != can[key]:
                    break
            if lst != can[key]:
                changed = True
            can[key] = lst
    if not changed:
        return None
    return spec_from_canonical(can, name=sp.name + "-permuted",
                               origin=sp.origin)


def redefined_twin(sp, rng):
    """Same names everywhere, but the exploit / escalation definitions, scan
    costs and host contents behind those names differ."""
    can = sp.canonical()
    for e in list(can["exploits"].values()) + list(can["privescs"].values()):
        r = rng.random()
        if r < 0.4:
            e["cost"] = e["cost"] + rng.choice([1, 0.5])
        elif r < 0.7:
            e["access"] = 3 - e["access"]
        else:
            e["prob"] = rng.choice([p for p in (0.0, 0.3, 0.7, 1.0)
                                    if p != e["prob"]])
    for k in can["scan_costs"]:
        if rng.random() < 0.5:
            can["scan_costs"][k] = can["scan_costs"][k] + 1
    for h in can["hosts"]:
        if rng.random() < 0.5:
            h[2] = sorted(rng.sample(sp.services,
                                     rng.randint(1, len(sp.services))))
        if rng.random() < 0.3:
            h[1] = rng.choice(sp.os)
    return spec_from_canonical(can, name=sp.name + "-redefined",
                               origin=sp.origin)


def any_twin(sp, rng):
    r = rng.random()
    if r < 0.4:
        t = permuted_twin(sp, rng)
        if t is not None:
            return t
    if r < 0.7:
        return renamed_twin(sp, rng)
    return redefined_twin(sp, rng)
