"""Scenario twins: same shape as a given Spec but with the names renamed or
the name lists permuted.  Building the twin right after the original in one
process exposes anything remembered from the previous scenario (class-level
layout caches, name -> column maps, memoised action lists)."""
from .spec import spec_from_canonical


def _rename_in(can, kind_key, mapping, host_idx):
    can[kind_key] = [mapping[n] for n in can[kind_key]]
    for h in can["hosts"]:
        if host_idx == 1:
            h[1] = mapping[h[1]]
        else:
            h[host_idx] = sorted(mapping[n] for n in h[host_idx])


def renamed_twin(sp, rng):
    """Same sizes, same structure, different OS / service / process names."""
    can = sp.canonical()
    which = rng.choice(["services", "processes", "os", "all"])
    if which in ("services", "all"):
        m = {n: n + "_x" for n in can["services"]}
        _rename_in(can, "services", m, 2)
        for e in can["exploits"].values():
            e["service"] = m[e["service"]]
        for h in can["hosts"]:
            h[6] = {s: sorted(m[x] for x in v) for s, v in h[6].items()}
        can["firewall"] = {k: sorted(m[x] for x in v)
                           for k, v in can["firewall"].items()}
    if which in ("processes", "all"):
        m = {n: n + "_y" for n in can["processes"]}
        _rename_in(can, "processes", m, 3)
        for e in can["privescs"].values():
            if e["process"] is not None:
                e["process"] = m[e["process"]]
    if which in ("os", "all"):
        m = {n: n + "_z" for n in can["os"]}
        _rename_in(can, "os", m, 1)
        for e in list(can["exploits"].values()) + \
                list(can["privescs"].values()):
            if e["os"] is not None:
                e["os"] = m[e["os"]]
    return spec_from_canonical(can, name=sp.name + "-renamed",
                               origin=sp.origin)


def permuted_twin(sp, rng):
    """Same names, same hosts, but the OS / service / process lists are in a
    different order (so the documented column order changes)."""
    can = sp.canonical()
    changed = False
    for key in ("os", "services", "processes"):
        lst = list(can[key])
        if len(lst) > 1:
            for _ in range(5):
                rng.shuffle(lst)
                if lst != can[key]:
                    break
            if lst != can[key]:
                changed = True
            can[key] = lst
    if not changed:
        return None
    return spec_from_canonical(can, name=sp.name + "-permuted",
                               origin=sp.origin)


def any_twin(sp, rng):
    t = permuted_twin(sp, rng) if rng.random() < 0.5 else None
    return t or renamed_twin(sp, rng)
