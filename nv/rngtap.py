"""Scripted draws on NumPy's global RandomState, without touching nasim.

A table of seeds whose first double is known lets the harness place the first
`np.random.rand()` just below or just above any probability; the MT19937
position read back afterwards tells how many 32-bit words were consumed.
"""
import bisect
import numpy as np

_TABLE = None


def table(n=4096):
    global _TABLE
    if _TABLE is None:
        rows = []
        for s in range(n):
            np.random.seed(s)
            rows.append((float(np.random.rand()), s))
        rows.sort()
        _TABLE = ([u for u, _ in rows], [s for _, s in rows])
        _U_OF.update({s: u for u, s in rows})
    return _TABLE


_U_OF = {}


def u_of(seed):
    """The first double produced after np.random.seed(seed)."""
    table()
    if seed not in _U_OF:
        np.random.seed(seed)
        _U_OF[seed] = float(np.random.rand())
    return _U_OF[seed]


def seed_below(p):
    """(seed, u) with u the largest tabled draw < p, or None."""
    us, ss = table()
    i = bisect.bisect_left(us, p) - 1
    if i < 0:
        return None
    return ss[i], us[i]


def seed_above(p):
    """(seed, u) with u the smallest tabled draw > p, or None."""
    us, ss = table()
    i = bisect.bisect_right(us, p)
    if i >= len(us):
        return None
    return ss[i], us[i]


def seed_for(p, succeed, rng=None):
    """A (seed, u) on the requested side of p; when that side does not exist
    (succeed at p=0, fail at p=1) the other extreme of the table is used, so
    that the caller still learns what the code does at the edge."""
    us, ss = table()
    if succeed:
        r = seed_below(p)
        if r is None:
            r = (ss[0], us[0])          # u tiny but > 0 = p : must fail
    else:
        r = seed_above(p)
        if r is None:
            r = (ss[-1], us[-1])        # u close to 1 <= p=1 : must succeed
    if rng is not None and rng.random() < 0.3:
        # not always the closest value: any value on that side will do
        if succeed and r[1] < p:
            i = rng.randrange(0, bisect.bisect_left(us, p))
            r = (ss[i], us[i])
        elif not succeed and r[1] > p:
            i = rng.randrange(bisect.bisect_right(us, p), len(us))
            r = (ss[i], us[i])
    return r


def arm(seed):
    np.random.seed(seed)


def words_consumed():
    """32-bit words consumed since the last arm(): 624 means 'untouched'."""
    pos = int(np.random.get_state()[2])
    return 0 if pos == 624 else pos
