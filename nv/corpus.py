"""Scenario sources shared by the checks."""
import os
import random

from .spec import spec_from_yaml_file, spec_from_scenario
from .verdict import h64
from . import synth

SHIPPED = ["tiny", "tiny-hard", "tiny-small", "small", "small-honeypot",
           "small-linear", "medium", "medium-single-site",
           "medium-multi-site"]
GENERATED = ["tiny-gen", "tiny-gen-rgoal", "small-gen", "small-gen-rgoal",
             "medium-gen", "large-gen", "huge-gen", "pocp-1-gen",
             "pocp-2-gen"]


def benchmark_dir():
    import nasim.scenarios.benchmark as b
    return b.BENCHMARK_DIR


def shipped_path(name):
    return os.path.join(benchmark_dir(), name + ".yaml")


def shipped_spec(name):
    sp = spec_from_yaml_file(shipped_path(name), name=name)
    sp.origin = "shipped:" + name
    return sp


def generated_case(name, seed):
    """(spec, scenario) for a generated benchmark."""
    import nasim
    sc = nasim.make_benchmark_scenario(name, seed=seed)
    sp = spec_from_scenario(sc, name=f"{name}@{seed}",
                            origin=f"generated:{name}@{seed}")
    return sp, sc


def case_rng(seed, prop, *case):
    return random.Random(h64(seed, prop, *case))


def shard_range(n, shard, nshards):
    return [i for i in range(n) if i % nshards == shard]
