"""Per-property configuration of the checks."""

DYN_ASSUME = [
    "the reference semantics in nv/refmodel.py (written from the property "
    "statements and the documentation) is the specification",
    "states are decoded with nv/layout.py (documented layout), not with the "
    "subject's HostVector",
    "the draw is scripted by seeding NumPy's global RandomState (the only "
    "entropy source of the dynamics) immediately before each call",
    "held = no refuting event on the executions observed; scenario sizes are "
    "bounded (<= 6 subnets x 4 hosts synthetic; shipped and generated "
    "benchmarks up to medium), exhaustive only where stated",
]


def _dyn(rule, floors_q, floors_t, timeout=(600, 3600)):
    return dict(module="nv.props.dyn", level="exploration",
                shards={"quick": 6, "thorough": 16},
                timeout={"quick": timeout[0], "thorough": timeout[1]},
                rule=rule, assumptions=DYN_ASSUME,
                floors={"quick": floors_q, "thorough": floors_t})


PROPS = {
    "C01": _dyn(
        "cases = (scenario, pre-state, action, side of the draw) observed at "
        "step/generative_step over synthetic (YAML and dict route), shipped "
        "and generated scenarios, random/attacker/adversarial histories and "
        "exhaustive BFS of micro-scenarios; non-trivial = exploit/escalation "
        "whose network gates passed so that the host-level rule (service, "
        "process, OS, access, draw) decided, plus scans/no-ops executed "
        "while the attacker holds a foothold; distinct by (scenario "
        "fingerprint, pre-state bytes, action, draw side)",
        {"hostlevel:exploit:ok": 300, "hostlevel:exploit:hostcfg": 300,
         "hostlevel:privesc:ok": 50, "hostlevel:privesc:hostcfg": 50,
         "scan_with_foothold": 300, "downgrade_trap": 5,
         "hostcfg:os_mismatch": 50},
        {"hostlevel:exploit:ok": 5000, "hostlevel:privesc:ok": 1000,
         "downgrade_trap": 100, "hostcfg:os_mismatch": 1000}),
    "C02": _dyn(
        "same executions as C01; non-trivial = actions the reference model "
        "blocks at a network gate (unreach / nopivot / fwblock / noaccess) "
        "and exploits that pass the firewall gate through exactly one "
        "attacker position (internet only / one same-subnet host / one host "
        "of another subnet); distinct by (scenario, pre-state, action, draw "
        "side)",
        {"gate:unreach": 300, "gate:nopivot": 20, "gate:fwblock": 200,
         "gate:noaccess": 300, "single_source:internet": 50,
         "single_source:same_subnet": 50, "single_source:other_subnet": 20,
         "fwblock:host_denylist_only": 5, "fwblock:internet_rule": 20,
         "fwblock:allowed_only_in_reverse_direction": 5},
        {"gate:nopivot": 500, "gate:fwblock": 5000,
         "single_source:other_subnet": 500,
         "fwblock:host_denylist_only": 200,
         "fwblock:allowed_only_in_reverse_direction": 200}),
    "C03": _dyn(
        "state invariant evaluated on every reset state and every resulting "
        "state (BFS of micro-scenarios and of tiny*/small* is exhaustive: "
        "all reachable states x all actions x both draws); non-trivial = "
        "distinct states with a compromised host while some host is still "
        "unreachable, and distinct successful subnet scans that discover a "
        "new host while another stays undiscovered",
        {"states_checked": 20000, "successful_scans": 300,
         "scan_partial_discovery": 20, "bfs_scenarios_fully_enumerated": 5},
        {"states_checked": 1000000, "scan_partial_discovery": 500,
         "bfs_scenarios_fully_enumerated": 200}),
    "C04": _dyn(
        "offline history check of every episode (monotone status columns, "
        "frozen configuration columns, reset == independently encoded "
        "initial tensor, steps == 0); non-trivial = resets performed from a "
        "state with a compromised host, and successful lower-granting "
        "actions on hosts already ROOT",
        {"resets": 150, "resets_from_compromised_state": 30,
         "lower_granting_action_on_root_host": 5, "via:step": 20000},
        {"resets_from_compromised_state": 1000,
         "lower_granting_action_on_root_host": 200}),
    "C05": _dyn(
        "reward/value oracle on every step; non-trivial = steps paying a "
        "non-zero value and second-chance steps (root-granting action on a "
        "ROOT host, scan that finds nothing new)",
        {"steps_paying_nonzero_value": 200, "root_action_on_rooted_host": 10,
         "scan_with_nothing_new": 50, "failed_actions": 5000,
         "negative_value_paid": 3, "episodes": 100},
        {"steps_paying_nonzero_value": 5000,
         "root_action_on_rooted_host": 300, "negative_value_paid": 100}),
    "C06": _dyn(
        "terminal / step-limit oracle on every step and look-ahead plus "
        "goal queries on synthetic tensors; non-trivial = steps at count "
        "limit-1/limit/limit+1, goal states, states where exactly one "
        "sensitive host lacks ROOT, synthetic access-level vectors",
        {"limit_edge:-1": 20, "limit_edge:+0": 20, "limit_edge:+1": 10,
         "goal_states": 20, "one_sensitive_missing": 50,
         "synthetic_goal_queries": 200, "generative_steps": 2000},
        {"limit_edge:+0": 500, "goal_states": 1000}),
    "C07": _dyn(
        "every chosen (state, action) is executed through generative_step "
        "with the scripted draw just below and just above the action's "
        "probability; non-trivial = distinct (scenario, state, action) "
        "pairs, counted separately for 0<p<1, p=0, p=1, re-exploits and "
        "gate-failed actions",
        {"pairs_interior": 300, "pairs_prob0": 50, "pairs_prob1": 100,
         "pairs_reexploit": 50, "pairs_gate_failed": 1000,
         "pairs_hostcfg": 200, "chance_failures": 200},
        {"pairs_interior": 8000, "pairs_reexploit": 2000}),
    "C08": _dyn(
        "observation oracle (own entitlement table over own layout) on every "
        "reset/step/look-ahead in both observation modes and shapes; "
        "non-trivial = distinct successful partial observations per action "
        "type, failed/no-op observations, initial observations with an "
        "unreachable host",
        {"ok_obs:exploit": 100, "ok_obs:privesc": 30,
         "ok_obs:service_scan": 100, "ok_obs:os_scan": 100,
         "ok_obs:process_scan": 100, "ok_obs:subnet_scan": 100,
         "failed_or_noop_obs": 2000, "full_obs": 2000,
         "initial_partial": 30, "initial_full": 20},
        {"ok_obs:privesc": 1000, "ok_obs:subnet_scan": 3000}),
    "C13": _dyn(
        "before/after snapshots around every generative_step (argument "
        "state, env.current_state, env.last_obs, env.steps, storage "
        "sharing) and step vs generative_step under the same scripted draw; "
        "non-trivial = look-aheads that change the state, look-aheads on "
        "pooled (non-current) states, distinct step/generative pairs",
        {"lookaheads": 20000, "lookaheads_that_change_state": 300,
         "lookaheads_on_pooled_state": 1000, "step_gen_pairs": 10000},
        {"lookaheads_that_change_state": 10000}),
}


API_ASSUME = [
    "scenarios: ScenarioSynth (YAML and dict route), the nine shipped files, "
    "nasim's generator with random parameters incl. custom larger "
    "address_space_bounds, the nine generated benchmarks",
    "layout oracle = nv/layout.py written from the documentation; action "
    "oracle = nv.spec.flat_descriptors / nv.props.api.decode_vector written "
    "from the documentation; membership oracle = gymnasium Space.contains",
    "held = no refuting event on the scenarios and states observed",
]


def _api(rule, floors_q, floors_t, timeout=(900, 5400)):
    return dict(module="nv.props.api", level="exploration",
                shards={"quick": 8, "thorough": 16},
                timeout={"quick": timeout[0], "thorough": timeout[1]},
                rule=rule, assumptions=API_ASSUME,
                floors={"quick": floors_q, "thorough": floors_t})


PROPS["C09"] = _api(
    "per scenario: initial tensor vs independent encoding of the documented "
    "layout, every row decoded back to the host definition, 1D vs 2D twin "
    "environments stepped in lock-step, from_numpy/get_readable round trips "
    "on states and observations along attacker runs; non-trivial = distinct "
    "layouts (address bounds, #OS, #services, #processes) and distinct "
    "(layout, state) pairs decoded",
    {"layouts_checked": 80, "custom_larger_bounds": 5,
     "observations_decoded": 3000, "states_decoded": 800},
    {"layouts_checked": 1500, "custom_larger_bounds": 100})
PROPS["C10"] = _api(
    "per scenario x 8 mode combinations: every observation from reset/step "
    "checked for dtype, shape, advertised dims and observation_space "
    "membership; every flat index, random members in several integer "
    "representations and space.sample() results stepped; non-trivial = "
    "distinct (scenario, mode, action representation) accepted and distinct "
    "observations containing a value outside [0,1]",
    {"mode_combinations": 600, "members_accepted:sample()": 5000,
     "members_accepted:int64": 50, "members_accepted:0d-int64": 50,
     "members_accepted:list": 50, "members_accepted:int64-array": 50,
     "obs_with_value_outside_0_1": 1000, "obs_with_negative_value": 50},
    {"mode_combinations": 10000, "obs_with_negative_value": 1000})
PROPS["C11"] = _api(
    "per scenario: flat list vs own enumeration (multiset, order, every "
    "attribute), advertised size, two environments of one scenario, the "
    "mask in every state of an attacker run, and every vector of the "
    "parameterised space (exhaustive below the cap, else boundaries + "
    "samples) vs own decoder; non-trivial = distinct vectors hitting "
    "wrap-around / undefined combination / OS-agnostic definition and "
    "distinct partial masks",
    {"flat_indices_checked": 5000, "vectors_checked": 100000,
     "param_spaces_fully_enumerated": 50, "vec:wraparound": 1000,
     "vec:undefined_combination": 1000, "vec:os_agnostic_definition": 200,
     "partial_masks": 300, "masks_checked": 2000,
     "scenarios_with_duplicate_service_os_exploits": 3},
    {"param_spaces_fully_enumerated": 1000, "partial_masks": 10000})

PROPS["C12"] = dict(
    module="nv.props.modes", level="exploration",
    shards={"quick": 8, "thorough": 16},
    timeout={"quick": 900, "thorough": 5400},
    rule="per (scenario, seed, abstract action sequence chosen online by a "
    "pilot run): the eight mode combinations are executed one after another "
    "from np.random.seed(seed) and, for half of the cases, in lock-step "
    "sharing the draw stream; every step's (state bytes, reward, terminated, "
    "truncated, info) is compared bitwise with the first combination; flat "
    "actions are translated to parameterised vectors by the independent "
    "decoder (inexpressible ones excluded and counted); non-trivial = "
    "distinct sequences containing a success, a chance failure and a state "
    "change",
    assumptions=API_ASSUME + [
        "the abstract sequence is what a flat index and the vector that "
        "documents to the same (kind, definition, target) denote"],
    floors={"quick": {"trajectories_compared": 400,
                      "nontrivial_sequences": 25, "lockstep_runs": 15,
                      "chance_failures_in_reference": 200,
                      "sequences_reaching_step_limit": 3},
            "thorough": {"nontrivial_sequences": 600, "lockstep_runs": 300}})

GEN_ASSUME = [
    "documented-valid domain as stated in DESIGN.md §4 C15: num_hosts >= 3, "
    "num_services/os/processes >= 1, num_exploits in [1, S*(O+1)], "
    "num_privescs in [1, P*(O+1)], restrictiveness >= 1, alpha/lambda > 0, "
    "probabilities None / float / list in (0,1] / 'mixed', uniform only "
    "with <= 10 services, bounds None or >= actual sizes",
    "termination is decided on interpreter LINE events of generator.py "
    "(budget 3e6, >20x the largest count observed), never on wall time",
    "held = no refuting event on the parameter sets observed",
]
PROPS["C15"] = dict(
    module="nv.props.gen", level="exploration",
    shards={"quick": 8, "thorough": 16},
    timeout={"quick": 900, "thorough": 7200},
    rule="random parameter sets from the documented-valid domain (incl. "
    "boundaries: hosts 3/40/41/42/81/82, exploits = S*(O+1), privescs > "
    "processes, alpha in {0.1..7.3}, restrictiveness 1..S+2, list/mixed/"
    "None probabilities, random_goal, custom bounds) x seeds, the nine "
    "benchmark sets x seeds and fixed edge cases; each result is validated "
    "clause by clause by a validator written from the statement, under a "
    "sys.monitoring line-event budget; non-trivial = distinct non-benchmark "
    "parameter sets that completed and were validated",
    assumptions=GEN_ASSUME,
    floors={"quick": {"generated_and_validated": 250,
                      "privescs_exceed_processes": 20,
                      "exploits_at_maximum": 15, "more_than_40_hosts": 15,
                      "rules_at_restrictiveness_limit": 100,
                      "clause:cross_zone_between_1_and_R": 1000,
                      "clause:user_subnets_unrestricted": 50},
            "thorough": {"generated_and_validated": 9000,
                         "privescs_exceed_processes": 800}})
PROPS["C16"] = dict(
    module="nv.props.gen", level="exploration",
    shards={"quick": 8, "thorough": 16},
    timeout={"quick": 900, "thorough": 7200},
    rule="nine shipped files, nine generated benchmarks x seeds and random "
    "domain parameter sets (biased to restrictiveness 1, one exploit, few "
    "escalations, > 41 hosts, random_goal): the reference model's monotone "
    "attack closure yields a plan that is replayed through NASimEnv.step "
    "with every draw forced to succeed and must end with terminated=True; "
    "when the model finds no plan the closure is run on the real "
    "environment itself before 'unsolvable' is reported; non-trivial = "
    "distinct scenarios whose plan needs an escalation or pivots while some "
    "cross-zone rule admits a single service",
    assumptions=GEN_ASSUME + [
        "dynamics are monotone (more footholds never disable an action), so "
        "the greedy closure is complete for reachability of the goal"],
    floors={"quick": {"solved": 110, "cases:shipped": 9,
                      "plans_with_escalation": 30, "plans_with_pivot": 80,
                      "solved_by_model_plan": 100},
            "thorough": {"solved": 3000, "plans_with_escalation": 800}})

PROPS["C14"] = dict(
    module="nv.props.repro", level="exploration",
    shards={"quick": 6, "thorough": 16},
    timeout={"quick": 1200, "thorough": 7200},
    rule="every case (generator parameter set + seed, generated benchmark + "
    "seed, or scenario + np.random.seed(k) + fixed action sequence chosen by "
    "a pilot run) is executed twice in each of K child interpreters started "
    "with PYTHONHASHSEED in {0,1,4242,random} (thorough: 0,1,2,3,17,4242,"
    "random); canonical fingerprints of the scenario (hosts, firewall as "
    "sets, exploits, escalations, sensitive hosts, topology) or of the "
    "trajectory (state bytes, observation bytes, reward, flags) must all be "
    "equal; non-trivial = generated cases in which the generator's "
    "set-iteration branch (>= restrictiveness exploitable services in a "
    "cross-zone destination) was reached, and trajectories with >= 5 chance "
    "failures",
    assumptions=[
        "PYTHONHASHSEED is sampled (4 resp. 7 values), not enumerated; the "
        "workload is steered into every place where a set of strings is "
        "iterated and the reach of that branch is counted",
        "held = equal fingerprints on the cases observed"],
    floors={"quick": {"generated_cases_reaching_set_choice_branch": 120,
                      "trajectories_with_5_chance_steps": 10,
                      "cases:traj": 30, "cases:bench": 20,
                      "extra:distinct_hash_probes": 2},
            "thorough": {"generated_cases_reaching_set_choice_branch": 3000,
                         "trajectories_with_5_chance_steps": 300}})

YAML_ASSUME = [
    "documented format = docs/source/tutorials/creating_scenarios.rst; valid "
    "documents are produced by ScenarioSynth and written with PyYAML in "
    "block and flow style; the independent reader is yaml.safe_load plus a "
    "regex address parser (no eval, no nasim)",
    "held = no refuting event on the documents observed",
]
PROPS["C17"] = dict(
    module="nv.props.yamlio", level="exploration",
    shards={"quick": 8, "thorough": 16},
    timeout={"quick": 900, "thorough": 7200},
    rule="the nine shipped files and random valid documents (prob 1.0 and 1, "
    "empty escalation section, no step limit, negative/zero/fractional "
    "values, empty process lists, empty allow-lists, host deny-lists, "
    "'none'/'None' OS, block and flow style): every field of the loaded "
    "Scenario/Host objects is compared with an independent reading of the "
    "same text, and the environment from nasim.load(path) is stepped under "
    "the C01/C02 monitors with the reference model configured from the "
    "file; non-trivial = distinct documents with a host deny-list, a "
    "probability-1 exploit, an empty escalation section or no step limit, "
    "and documents whose run contained steps decided by a host deny-list",
    assumptions=YAML_ASSUME,
    floors={"quick": {"documents_compared": 150, "cases:shipped": 9,
                      "feature:host_denylist": 40,
                      "feature:prob_one_exploit": 30,
                      "feature:empty_escalation_section": 20,
                      "feature:no_step_limit": 30,
                      "feature:negative_value": 30,
                      "behaviour_steps": 15000,
                      "behaviour_steps_decided_by_host_denylist": 5},
            "thorough": {"documents_compared": 4000,
                         "behaviour_steps_decided_by_host_denylist": 300}})
PROPS["C18"] = dict(
    module="nv.props.yamlio", level="fault_enumeration",
    shards={"quick": 8, "thorough": 16},
    timeout={"quick": 900, "thorough": 7200},
    rule="fault enumeration: every operator of the catalogue (one per clause "
    "of the statement, see nv/props/yamlio.py catalogue()) is applied to "
    "every valid base document (nine shipped + random valid documents) at "
    "one random applicable position (thorough: up to 12 positions); the "
    "loader must raise; non-trivial/distinct = (base, operator, position) "
    "triples applied",
    assumptions=YAML_ASSUME + [
        "each operator produces a document that breaks exactly the named "
        "rule and is dumped back to YAML text before loading; the base is "
        "loaded first and must be accepted"],
    floors={"quick": {"evaluations": 1500, "bases:shipped": 9,
                      "bases:doc": 20,
                      "op:host_value_contradicts_sensitive": 20,
                      "op:escalation_field_missing": 10,
                      "op:host_firewall_bad_address": 20,
                      "op:sensitive_duplicate": 20},
            "thorough": {"evaluations": 100000}})

PROPS["C19"] = dict(
    module="nv.props.iso", level="exploration",
    shards={"quick": 8, "thorough": 16},
    timeout={"quick": 1200, "thorough": 7200},
    rule="pairs of environments (same scenario, same layout with different "
    "content incl. two seeds of a generated benchmark, different layouts, "
    "different modes); each environment's operations (construct, reset, "
    "step under a scripted draw, mask) are chosen by a solo pilot run, then "
    "all merges of the two sequences are executed when both are short (<= 4 "
    "operations each: 20-70 merges) and random merges otherwise, comparing "
    "every operation's result (arrays, reward, flags, info, state bytes, "
    "readable decoding of state and last observation) with the solo trace; "
    "different-layout pairs are additionally run in shim mode; non-trivial "
    "= distinct (pair, schedule) with a switch between the environments "
    "after both changed their state, and distinct shim-mode schedules",
    assumptions=[
        "a divergence is attributed to the recorded finding only when the "
        "process-global HostVector layout differs from the layout snapshot "
        "taken when the diverging environment was constructed; in shim mode "
        "(layout re-installed before each operation) nothing is tolerated",
        "solo traces are produced in-process and, for a sample, in a fresh "
        "interpreter",
        "held = no unlisted divergence on the pairs and schedules observed"],
    floors={"quick": {"schedules_plain": 1500, "schedules_shim": 600,
                      "schedules_same_layout": 500,
                      "pairs_same_layout": 20, "pairs_different_layout": 10,
                      "pairs_with_all_merges_enumerated": 15,
                      "schedules_switching_after_both_changed": 150,
                      "solo_baselines_from_fresh_process": 3},
            "thorough": {"schedules_plain": 30000, "schedules_shim": 12000}})

PROPS["C20"] = dict(
    module="nv.props.bound", level="exploration",
    shards={"quick": 8, "thorough": 16},
    timeout={"quick": 1500, "thorough": 10800},
    rule="scenarios in the cost/value domain (costs >= 1, non-sensitive "
    "values <= 1): a solvable-by-construction family of trees rooted at the "
    "internet (chains, stars, sensitive leaves under a common parent, "
    "chords, second entry points; <= 9 hosts; root exploits and user "
    "exploit + escalation variants; values incl. 1 and -5; discovery values "
    "0/1), the deterministic ScenarioSynth stream and the shipped files up "
    "to 8 hosts; for each the whole monotone episode graph is executed on "
    "the real environment (generative_step, succeeding draws) and the exact "
    "maximum reward of a goal-reaching episode is compared with the "
    "advertised bound; the hop clause is decided on the same scenario with "
    "all firewalls opened; non-trivial = distinct scenarios whose sensitive "
    "subnets' shortest routes from the internet share a subnet (branching)",
    assumptions=[
        "only exploits, escalations and subnet scans are expanded (other "
        "actions cannot change the state and cost >= 1 in the domain, so "
        "they never belong to a maximal episode)",
        "failed draws only add cost, so the maximum is attained with every "
        "draw succeeding",
        "exact only for scenarios whose monotone state graph fits the cap "
        "(2 000 states quick, 30 000 thorough); larger ones are counted "
        "as skipped, never as held"],
    floors={"quick": {"scenarios_solved_exactly": 120,
                      "branching_scenarios": 25, "hop_clause_evaluated": 100,
                      "bound_attained_exactly": 5,
                      "hop_clause_bruteforce_only": 3,
                      "hop_clause_on_large_topologies": 300,
                      "hop_clause_with_4plus_sensitive_subnets": 60},
            "thorough": {"scenarios_solved_exactly": 3000,
                         "branching_scenarios": 600}})

NOT_APPLICABLE = {}

ENGINES = [
    {"name": "dyn", "path": "nv/props/dyn.py + nv/harness.py + nv/dynmon.py + nv/refmodel.py + nv/layout.py + nv/rngtap.py",
     "serves_properties": ["C01", "C02", "C03", "C04", "C05", "C06", "C07",
                           "C08", "C13"],
     "kind_free_text": "real NASimEnv driven by generated scenarios, hostile "
     "histories, exhaustive BFS of micro-scenarios and scripted draws; every "
     "reset/step/generative_step recorded at the API boundary and compared "
     "online with an independent reference model"},
]
ENGINES.append(
    {"name": "api", "path": "nv/props/api.py + nv/layout.py + nv/spec.py",
     "serves_properties": ["C09", "C10", "C11", "C12"],
     "kind_free_text": "real environments built for many scenarios; every "
     "array, action object, vector decode and mask compared with an "
     "independent decoder / enumeration; membership by gymnasium contains"})
ENGINES.append(
    {"name": "gen", "path": "nv/props/gen.py + nv/gentrace.py",
     "serves_properties": ["C15", "C16"],
     "kind_free_text": "nasim's generator called on sampled parameter sets "
     "under a sys.monitoring line-event budget; results validated clause by "
     "clause; solvability decided by replaying a model-derived plan on the "
     "real environment with forced draws"})
ENGINES.append(
    {"name": "xproc", "path": "nv/props/repro.py",
     "serves_properties": ["C14"],
     "kind_free_text": "cross-process differential runner: the same cases "
     "in child interpreters with different PYTHONHASHSEED, fingerprints "
     "compared"})
ENGINES.append(
    {"name": "yaml", "path": "nv/props/yamlio.py",
     "serves_properties": ["C17", "C18"],
     "kind_free_text": "random valid YAML documents + independent reader "
     "(field and behaviour differential); fault catalogue applied to valid "
     "bases, loader must raise"})
ENGINES.append(
    {"name": "iso", "path": "nv/props/iso.py",
     "serves_properties": ["C19"],
     "kind_free_text": "two-environment interleaver: solo vs interleaved "
     "traces over all / sampled merges, layout-mechanism classifier, shim "
     "mode"})
ENGINES.append(
    {"name": "bound", "path": "nv/props/bound.py",
     "serves_properties": ["C20"],
     "kind_free_text": "exact optimisation over the monotone episode graph "
     "of the real environment (memoised search through generative_step), "
     "compared with the advertised bound and hop count"})

NOTES = ("Runtime monitoring of the real code only; no compiler sanitizers or "
         "race detectors are used because nasim is single-threaded pure "
         "Python (DESIGN.md §0). Exit codes: 0 held on everything observed, "
         "1 violation, 2 inconclusive (deciding monitor not reached / worker "
         "watchdog). Known findings: known_findings.json.")


# ----------------------------------------------------------------------
# Coverage floors are kept in nv/floors.json: one third of the smallest value
# observed over a seed sweep of the quick tier (tools/calibrate_floors.py), so
# that a run on the unchanged tree never misses one by chance while a run
# whose deciding monitor was not reached still does.  The thorough tier does
# at least ten times the work of the quick tier and uses the same floors.
def _load_floors():
    import json
    import os
    path = os.path.join(os.path.dirname(os.path.abspath(__file__)),
                        "floors.json")
    if not os.path.exists(path):
        return
    with open(path) as f:
        table = json.load(f)
    for prop, floors in table.items():
        if prop in PROPS:
            PROPS[prop]["floors"] = {"quick": dict(floors),
                                     "thorough": dict(floors)}


_load_floors()


TECHNIQUE = {
    "C01": "runtime monitoring: online transition oracle (independent reference model) at the step/generative_step boundary under scripted draws; exhaustive BFS of micro-scenarios",
    "C02": "runtime monitoring: online transition oracle for the four network gates (reference model over both firewall layers) under scripted draws; exhaustive BFS of micro-scenarios",
    "C03": "runtime monitoring: state-invariant hook on every observed state plus transition rule on the discovered flags; exhaustive BFS of bounded scenarios",
    "C04": "runtime monitoring: offline history checker over recorded episodes (monotone status, frozen configuration, reset == independent encoding of the initial state)",
    "C05": "runtime monitoring: online reward/value oracle plus per-episode conservation and paid-at-most-once history checker",
    "C06": "runtime monitoring: boundary call counter and goal predicate on independently decoded states, goal queries on other and synthetic states",
    "C07": "runtime monitoring: draws scripted either side of p through NumPy's global RandomState with RNG-word accounting, icontract class invariant on ActionResult, frequency fallback",
    "C08": "runtime monitoring: observation oracle (own entitlement table over an independent layout decoder) on every reset/step/look-ahead",
    "C09": "runtime monitoring: differential against an independent encoder/decoder of the documented layout, 1D/2D twin environments, from-array and readable round trips",
    "C10": "runtime monitoring: membership oracle (gymnasium Space.contains) over observed observations and stepped action representations",
    "C11": "runtime monitoring: differential enumeration (flat list, every parameterised vector below the cap, masks in visited states) and cross-process mapping comparison",
    "C12": "runtime monitoring: differential trajectories over the eight mode combinations (sequential and lock-step)",
    "C13": "runtime monitoring: before/after snapshots at the API boundary, icontract purity post-conditions inside Network/HostVector/State, repeated probes on pooled states",
    "C14": "runtime monitoring: cross-process differential runner (PYTHONHASHSEED sweep, per-child case order), scenario and trajectory fingerprints",
    "C15": "runtime monitoring: clause-by-clause validator on generator output under a sys.monitoring line-event budget (termination on logical steps)",
    "C16": "runtime monitoring: model-derived attack plan replayed through NASimEnv.step with forced draws; real-environment closure before 'unsolvable'",
    "C17": "runtime monitoring: field differential against an independent YAML reader and behavioural differential under the C01/C02 monitors",
    "C18": "fault enumeration: catalogue of single-rule corruptions applied to valid documents, loader must raise",
    "C19": "runtime monitoring: solo vs interleaved trace differential over enumerated / sampled schedules of two environments, layout-mechanism classifier, shim mode",
    "C20": "runtime monitoring: exact optimisation over the executed monotone episode graph of the real environment compared with the advertised bound; executed minimal-host episodes for the hop clause",
}
ENGINE_OF = {}
for _e in ENGINES:
    for _p in _e["serves_properties"]:
        ENGINE_OF[_p] = _e["name"]
for _p, _c in PROPS.items():
    _c["technique"] = TECHNIQUE[_p]
    _c["engine"] = ENGINE_OF.get(_p, "nv")
    _c["level_text"] = (
        "Held on the executions observed (never 'verified'): " + _c["rule"] +
        ".  This is the right level because the property quantifies over "
        "scenarios, histories and draws that only executing the real code "
        "under a generated, hostile workload with an independent oracle "
        "can sample; coverage counters, floors and the lines of nasim "
        "actually executed are written to the evidence.")
