"""Online monitors over observed transitions (C01-C08, C13).

Every monitor receives `Trans` records produced by nv.harness and reports to
an `Acc`.  Each states the refuting event it looks for; nothing here reads the
subject's HostVector or Action attributes.
"""
import numpy as np

from .refmodel import (G_NOOP, G_UNREACH, G_NOPIVOT, G_FWBLOCK, G_NOACCESS,
                       G_HOSTCFG, G_CHANCE, G_OK, NETWORK_GATES)
from .spec import (NOOP, SRV_SCAN, OS_SCAN, SUB_SCAN, PROC_SCAN, EXPLOIT,
                   PRIVESC, SCAN_KINDS)

TOL = 1e-5


def close(a, b):
    return abs(float(a) - float(b)) <= TOL * max(1.0, abs(float(a)),
                                                 abs(float(b)))


def _sample_of(T):
    return {"scenario": T.subj.fp, "via": T.via, "action":
            [T.desc["kind"], T.desc["name"], list(T.desc["target"])],
            "u": T.u, "prob": T.desc["prob"], "gate": T.gate,
            "success": T.success, "reward": T.reward,
            "pre_status": T.S, "post_status": T.P}


def mech_of(T, what):
    """Classifier key of a dynamics violation: clause + model gate + action
    kind (+ the kind of position that should have decided)."""
    return f"{what}:{T.gate}:{T.desc['kind']}"


class Base:
    prop = None

    def __init__(self, acc):
        self.acc = acc

    def raised(self, T):
        self.acc.violation("exception", f"exception:{T.raised.split(':')[0]}",
                           f"{T.via} raised {T.raised}", T)

    def on_reset(self, subj, obs, info):
        pass

    def on_trans(self, T):
        pass

    def end_episode(self, subj):
        pass


# ----------------------------------------------------------------------
class C01(Base):
    prop = "C01"

    def on_trans(self, T):
        acc = self.acc
        acc.evaluations += 1
        if T.raised:
            return self.raised(T)
        d = T.desc
        kind = d["kind"]
        comp0, acc0 = T.S[0], T.S[1]
        comp1, acc1 = T.P[0], T.P[1]
        m = T.subj.model
        changed = [i for i in range(m.n)
                   if comp0[i] != comp1[i] or acc0[i] != acc1[i]]
        ti = m.row[d["target"]] if kind != NOOP else None
        # (a) necessity: only an applicable exploit / escalation aimed at the
        #     host may change its compromised flag or access
        for i in changed:
            licensed = kind in (EXPLOIT, PRIVESC) and i == ti and \
                m.host_preconditions(T.S, d)
            if licensed and kind == PRIVESC:
                licensed = bool(comp0[i]) and acc0[i] >= d["req_access"]
            if not licensed:
                acc.violation(
                    "unlicensed_change", mech_of(T, "unlicensed_change"),
                    f"host row {i} ({m.addrs[i]}) changed compromised/access "
                    f"{comp0[i]},{acc0[i]} -> {comp1[i]},{acc1[i]} by "
                    f"{kind} {d['name']} on {d['target']}", T)
        if changed and not T.success:
            acc.violation(
                "failed_action_changed_access",
                mech_of(T, "failed_action_changed_access"),
                f"{kind} {d['name']} on {d['target']} reported failure but "
                f"changed compromised/access of rows {changed}", T)
        # (b) sufficiency: all preconditions + succeeding draw => success and
        #     access = max(previous, granted)
        if T.gate == G_OK and kind in (EXPLOIT, PRIVESC):
            want = max(acc0[ti], d["access"])
            if not T.success or acc1[ti] != want or \
                    (kind == EXPLOIT and comp1[ti] != 1) or comp1[ti] < comp0[ti]:
                acc.violation(
                    "must_succeed", mech_of(T, "must_succeed"),
                    f"{kind} {d['name']} on {d['target']}: preconditions hold"
                    f", u={T.u} <= p={d['prob']}, expected success with "
                    f"access {want}; got success={T.success} comp={comp1[ti]}"
                    f" access={acc1[ti]}", T)
        # access values stay in the documented range
        if any(a not in (0, 1, 2) for a in acc1) or \
                any(c not in (0, 1) for c in comp1):
            acc.violation("status_range", mech_of(T, "status_range"),
                          "status column outside documented values",
                          T)
        # coverage
        acc.count(f"gate:{T.gate}")
        acc.count(f"kind:{kind}")
        if kind in (EXPLOIT, PRIVESC) and T.gate in (G_HOSTCFG, G_CHANCE,
                                                     G_OK):
            acc.nontrivial(T.subj.fp, "hl", T.key())
            acc.count(f"hostlevel:{kind}:{T.gate}")
            if T.gate == G_OK and acc0[ti] == 2 and d["access"] == 1:
                acc.count("downgrade_trap")
            if T.gate == G_HOSTCFG:
                h = T.subj.spec.hosts[d["target"]]
                if d.get("os") is not None and d["os"] != h["os"]:
                    acc.count("hostcfg:os_mismatch")
            if len(acc.samples) < 3 and T.gate == G_OK:
                acc.sample(_sample_of(T))
        elif kind in SCAN_KINDS + (NOOP,) and any(comp0):
            acc.nontrivial(T.subj.fp, "scan", T.key())
            acc.count("scan_with_foothold")


# ----------------------------------------------------------------------
class C02(Base):
    prop = "C02"

    def on_trans(self, T):
        acc = self.acc
        acc.evaluations += 1
        if T.raised:
            return self.raised(T)
        d = T.desc
        if T.gate in NETWORK_GATES:
            bad = []
            if T.success:
                bad.append("succeeded")
            if not np.array_equal(T.pre, T.post):
                bad.append("state changed")
            if T.info.get("value", 0) != 0:
                bad.append(f"value {T.info.get('value')}")
            if bad:
                srcs = T.extra.get("sources")
                acc.violation(
                    "gate_not_enforced", mech_of(T, "gate_not_enforced"),
                    f"{d['kind']} {d['name']} on {d['target']} must be blocked"
                    f" by gate '{T.gate}' but {', '.join(bad)}", T)
            acc.nontrivial(T.subj.fp, T.gate, T.key())
        acc.count(f"gate:{T.gate}")
        if d["kind"] == EXPLOIT and "sources" in T.extra and \
                T.gate not in NETWORK_GATES:
            srcs = T.extra["sources"]
            kinds = set()
            for s in srcs:
                if s[0] == "internet":
                    kinds.add("internet")
                elif s[2]:
                    kinds.add("same_subnet")
                else:
                    kinds.add("other_subnet")
            if len(srcs) == 1:
                k = "single_source:" + next(iter(kinds))
                acc.count(k)
                acc.nontrivial(T.subj.fp, k, T.key())
            elif len(kinds) == 1:
                acc.count("single_kind:" + next(iter(kinds)))
        if T.gate == G_FWBLOCK or (T.gate == G_NOPIVOT and
                                   d["kind"] == EXPLOIT):
            # why blocked: subnet rule or host deny-list?
            sp, m = T.subj.spec, T.subj.model
            t = d["target"]
            via_rule = [a for i, a in enumerate(m.addrs) if T.S[0][i] and
                        m.subnet_rule_allows(a[0], t[0], d["service"])]
            if via_rule:
                acc.count("fwblock:host_denylist_only")
            elif sp.public[t[0]] and not m.subnet_rule_allows(
                    0, t[0], d["service"]) and not any(T.S[0]):
                acc.count("fwblock:internet_rule")
            else:
                acc.count("fwblock:subnet_rule")
            rev = [a for i, a in enumerate(m.addrs) if T.S[0][i] and
                   a[0] != t[0] and sp.conn[a[0]][t[0]] and
                   d["service"] in sp.fw_sets.get((t[0], a[0]), ())]
            if rev and not via_rule:
                acc.count("fwblock:allowed_only_in_reverse_direction")
            if len(acc.samples) < 3 and rev and not via_rule:
                acc.sample(_sample_of(T))


# ----------------------------------------------------------------------
class C03(Base):
    prop = "C03"

    def _state_invariant(self, subj, tensor, S, where, witness):
        acc = self.acc
        m = subj.model
        comp, _a, reach, disc = S
        want = m.invariant_reach(comp)
        if reach != want:
            acc.violation("reachable_mismatch", f"reachable_mismatch:{where}",
                          {"reach": reach, "expected": want, "comp": comp},
                          witness)
        for i in range(m.n):
            if comp[i] and not disc[i]:
                acc.violation("compromised_not_discovered",
                              f"compromised_not_discovered:{where}",
                              {"row": i}, witness)
                break
        for i in range(m.n):
            if disc[i] and not reach[i]:
                acc.violation("discovered_not_reachable",
                              f"discovered_not_reachable:{where}",
                              {"row": i}, witness)
                break
        if any(c for c in comp) and any(not r for r in reach):
            acc.nontrivial(subj.fp, "state", tensor.tobytes())
        acc.count("states_checked")

    def on_reset(self, subj, obs, info):
        self.acc.evaluations += 1
        t = subj.current().tensor
        S = subj.lay.status(t)
        w = {"kind": "dyn", "spec": subj.spec.canonical(),
             "route": subj.route, "modes": subj.modes, "hist": [],
             "op": ["reset"]}
        self._state_invariant(subj, t, S, "reset", w)
        pub = [1 if subj.spec.public[a[0]] else 0 for a in subj.spec.addrs]
        if S[3] != pub:
            self.acc.violation("initial_discovery", "initial_discovery",
                               {"disc": S[3], "public": pub}, w)

    def on_trans(self, T):
        acc = self.acc
        acc.evaluations += 1
        if T.raised:
            return self.raised(T)
        subj, m, d = T.subj, T.subj.model, T.desc
        self._state_invariant(subj, T.post, T.P, "step", T)
        disc0, disc1 = T.S[3], T.P[3]
        newly = [m.addrs[i] for i in range(m.n) if disc1[i] and not disc0[i]]
        lost = [m.addrs[i] for i in range(m.n) if disc0[i] and not disc1[i]]
        scan_ok = d["kind"] == SUB_SCAN and bool(T.success)
        if scan_ok:
            t = d["target"]
            ti = m.row[t]
            want = [a for i, a in enumerate(m.addrs)
                    if subj.spec.conn[t[0]][a[0]] and not disc0[i]]
            if not T.S[0][ti]:
                acc.violation("scan_from_uncompromised",
                              mech_of(T, "scan_from_uncompromised"),
                              "successful subnet scan on a host that is not "
                              "compromised", T)
            if sorted(newly) != sorted(want):
                acc.violation("scan_discovers_wrong_set",
                              mech_of(T, "scan_discovers_wrong_set"),
                              {"newly": newly, "expected": want}, T)
            info_d = T.info.get("discovered") or {}
            info_n = T.info.get("newly_discovered") or {}
            want_d = {a for a in m.addrs if subj.spec.conn[t[0]][a[0]]}
            got_d = {tuple(a) for a, v in info_d.items() if v}
            got_n = {tuple(a) for a, v in info_n.items() if v}
            if ("discovered" in T.info and got_d != want_d) or \
                    ("newly_discovered" in T.info and got_n != set(want)):
                acc.violation("scan_info_mismatch",
                              mech_of(T, "scan_info_mismatch"),
                              {"info_discovered": sorted(got_d),
                               "expected": sorted(want_d),
                               "info_newly": sorted(got_n),
                               "expected_newly": sorted(want)}, T)
            if newly and any(not x for x in disc1):
                acc.nontrivial(subj.fp, "scan", T.key())
                acc.count("scan_partial_discovery")
                if len(acc.samples) < 3:
                    acc.sample(_sample_of(T))
            acc.count("successful_scans")
        elif newly:
            acc.violation("discovered_without_scan",
                          mech_of(T, "discovered_without_scan"),
                          {"newly": newly}, T)
        if lost:
            acc.violation("discovery_lost", mech_of(T, "discovery_lost"),
                          {"lost": lost}, T)


# ----------------------------------------------------------------------
class C04(Base):
    """History checker: monotone status, frozen configuration, exact reset."""
    prop = "C04"

    def __init__(self, acc):
        super().__init__(acc)
        self.init = None
        self.root_then_lower = False

    def on_reset(self, subj, obs, info):
        acc = self.acc
        acc.evaluations += 1
        t = subj.current().tensor
        want = subj.lay.encode_initial()
        w = {"kind": "dyn", "spec": subj.spec.canonical(),
             "route": subj.route, "modes": subj.modes,
             "hist": [list(x) for x in getattr(self, "last_hist", ())],
             "op": ["reset"]}
        if t.shape != want.shape or not np.array_equal(t, want):
            diff = np.argwhere(t != want).tolist()[:8] \
                if t.shape == want.shape else "shape"
            acc.violation("reset_not_initial", "reset_not_initial",
                          {"diff_cells": diff}, w)
        if subj.env.steps != 0:
            acc.violation("reset_steps_not_zero", "reset_steps_not_zero",
                          {"steps": subj.env.steps}, w)
        if getattr(self, "dirty", False):
            acc.nontrivial(subj.fp, "reset_dirty",
                           self.last_tensor_bytes)
            acc.count("resets_from_compromised_state")
        acc.count("resets")
        self.dirty = False
        self.root_then_lower = False

    def on_trans(self, T):
        acc = self.acc
        acc.evaluations += 1
        if T.raised:
            return self.raised(T)
        lay = T.subj.lay
        pre, post = T.pre, T.post
        sc = lay.status_cols
        if np.any(post[:, sc] < pre[:, sc]):
            cells = np.argwhere(post[:, sc] < pre[:, sc]).tolist()[:6]
            acc.violation("status_decreased", mech_of(T, "status_decreased"),
                          {"cells(row,statuscol)": cells}, T)
        cc = lay.config_cols
        if not np.array_equal(post[:, cc], pre[:, cc]):
            cells = np.argwhere(post[:, cc] != pre[:, cc]).tolist()[:6]
            acc.violation("config_changed", mech_of(T, "config_changed"),
                          {"cells(row,configcol)": cells}, T)
        d = T.desc
        if T.via == "step":
            self.last_hist = T.subj.hist
            if any(T.P[0]):
                self.dirty = True
                self.last_tensor_bytes = post.tobytes()
        if d["kind"] in (EXPLOIT, PRIVESC) and T.success:
            ti = T.subj.model.row[d["target"]]
            if T.S[1][ti] == 2 and d["access"] < 2:
                acc.nontrivial(T.subj.fp, "lower_on_root", T.key())
                acc.count("lower_granting_action_on_root_host")
                if len(acc.samples) < 3:
                    acc.sample(_sample_of(T))
        acc.count(f"via:{T.via}")


# ----------------------------------------------------------------------
    def fresh_initial_state(self, subj):
        """env.generate_initial_state(): a fresh copy of the scenario's
        initial state that leaves the running episode alone."""
        acc = self.acc
        acc.evaluations += 1
        env = subj.env
        before = (env.current_state, env.current_state.tensor.tobytes(),
                  env.steps)
        st = env.generate_initial_state()
        want = subj.lay.encode_initial()
        w = {"kind": "dyn", "spec": subj.spec.canonical(),
             "route": subj.route, "modes": subj.modes,
             "hist": [list(x) for x in subj.hist],
             "op": ["generate_initial_state"]}
        if st.tensor.shape != want.shape or \
                not np.array_equal(st.tensor, want):
            acc.violation("fresh_initial_state_wrong",
                          "fresh_initial_state_wrong", {}, w)
        if env.current_state is not before[0] or \
                env.current_state.tensor.tobytes() != before[1] or \
                env.steps != before[2] or \
                np.shares_memory(st.tensor, env.current_state.tensor):
            acc.violation("fresh_initial_state_disturbs_episode",
                          "fresh_initial_state_disturbs_episode", {}, w)
        acc.count("fresh_initial_states")


class C05(Base):
    prop = "C05"

    def __init__(self, acc):
        super().__init__(acc)
        self._new_episode()

    def _new_episode(self):
        self.paid_value = {}
        self.paid_disc = {}
        self.sum_reward = 0.0
        self.sum_cost = 0.0
        self.sum_expected_gain = 0.0
        self.ep_steps = 0

    def on_reset(self, subj, obs, info):
        self.end_episode(subj)

    def end_episode(self, subj):
        if self.ep_steps:
            acc = self.acc
            acc.evaluations += 1
            want = self.sum_expected_gain - self.sum_cost
            if abs(self.sum_reward - want) > 1e-4 * max(1.0, abs(want),
                                                        self.ep_steps):
                acc.violation("conservation", "conservation",
                              {"sum_reward": self.sum_reward,
                               "gain_minus_cost": want}, None)
            acc.count("episodes")
        self._new_episode()

    def on_trans(self, T):
        acc = self.acc
        acc.evaluations += 1
        if T.raised:
            return self.raised(T)
        d, sp, m = T.desc, T.subj.spec, T.subj.model
        cost = d["cost"]
        has_val = "value" in T.info
        val = T.info.get("value", 0)
        if has_val and not close(T.reward, val - cost):
            acc.violation("reward_formula", mech_of(T, "reward_formula"),
                          {"reward": T.reward, "value": val, "cost": cost},
                          T)
        if d["kind"] == NOOP and T.reward != 0:
            acc.violation("noop_not_free", "noop_not_free",
                          {"reward": T.reward}, T)
        if not T.success and val != 0:
            acc.violation("failed_action_gained", mech_of(T, "failed_gain"),
                          {"value": val}, T)
        # value according to the *observed* state change (independent of
        # whether success agreed with the model)
        gain = 0.0
        rooted, newly = [], []
        for i in range(m.n):
            if T.P[1][i] == 2 and T.S[1][i] < 2:
                rooted.append(m.addrs[i])
                gain += sp.host_value(m.addrs[i])
            if T.P[3][i] and not T.S[3][i]:
                newly.append(m.addrs[i])
                gain += float(sp.hosts[m.addrs[i]]["discovery_value"])
        if not close(T.reward, gain - cost):
            acc.violation("reward_vs_state_change",
                          mech_of(T, "reward_vs_state_change"),
                          {"reward": T.reward, "value_of_state_change": gain,
                           "cost": cost, "newly_rooted": rooted,
                           "newly_discovered": newly}, T)
        if has_val and not close(val, gain):
            acc.violation("value_mismatch", mech_of(T, "value_mismatch"),
                          {"info_value": val, "value_of_state_change": gain,
                           "newly_rooted": rooted, "newly_discovered": newly},
                          T)
        if has_val and T.success == T.exp_success and \
                not close(val, T.exp_value):
            acc.violation("value_vs_model", mech_of(T, "value_vs_model"),
                          {"info_value": val, "model_value": T.exp_value},
                          T)
        if T.via == "step":
            self.ep_steps += 1
            self.sum_reward += float(T.reward)
            self.sum_cost += float(cost)
            self.sum_expected_gain += gain
            for a in rooted:
                self.paid_value[a] = self.paid_value.get(a, 0) + 1
                if self.paid_value[a] > 1:
                    acc.violation("value_paid_twice", "value_paid_twice",
                                  {"host": a}, T)
            for a in newly:
                self.paid_disc[a] = self.paid_disc.get(a, 0) + 1
                if self.paid_disc[a] > 1:
                    acc.violation("discovery_paid_twice",
                                  "discovery_paid_twice", {"host": a},
                                  T)
        if val != 0:
            acc.nontrivial(T.subj.fp, "pays", T.key())
            acc.count("steps_paying_nonzero_value")
            if val < 0:
                acc.count("negative_value_paid")
            if len(acc.samples) < 3:
                acc.sample(_sample_of(T))
        ti = m.row[d["target"]]
        if T.success and d["kind"] in (EXPLOIT, PRIVESC) and \
                d["access"] == 2 and T.S[1][ti] == 2:
            acc.nontrivial(T.subj.fp, "second_chance", T.key())
            acc.count("root_action_on_rooted_host")
        if T.success and d["kind"] == SUB_SCAN and not newly:
            acc.nontrivial(T.subj.fp, "second_chance", T.key())
            acc.count("scan_with_nothing_new")
        if not T.success:
            acc.count("failed_actions")
        if isinstance(cost, float) and cost != int(cost):
            acc.count("fractional_cost")


# ----------------------------------------------------------------------
class C06(Base):
    prop = "C06"

    def __init__(self, acc):
        super().__init__(acc)
        self.initial = None

    def on_reset(self, subj, obs, info):
        """The goal query right after a reset (whatever happened before) and
        on the kept initial state."""
        acc = self.acc
        acc.evaluations += 1
        cur = subj.current()
        want = subj.model.goal(subj.lay.status(cur.tensor))
        for label, got in (("goal_reached()", subj.env.goal_reached()),
                           ("goal_reached(current)",
                            subj.env.goal_reached(cur))):
            if bool(got) != want:
                acc.violation("goal_query", "goal_query:after_reset",
                              {"query": label, "got": got, "expected": want},
                              {"kind": "dyn", "spec": subj.spec.canonical()
                               if len(subj.spec.addrs) < 30 else None,
                               "route": subj.route, "modes": subj.modes,
                               "hist": [], "op": ["reset"]})
        if self.initial is None:
            self.initial = cur.copy()
        acc.count("goal_queries_after_reset")

    def goal(self, subj, S):
        return subj.model.goal(S)

    def on_trans(self, T):
        acc = self.acc
        acc.evaluations += 1
        if T.raised:
            return self.raised(T)
        subj = T.subj
        g = self.goal(subj, T.P)
        if bool(T.done) != g or not isinstance(T.done, (bool, np.bool_)):
            acc.violation("terminal_flag", mech_of(T, "terminal_flag"),
                          {"done": T.done, "goal_on_resulting_state": g,
                           "sensitive": list(subj.spec.sensitive)},
                          T)
        q = subj.env.goal_reached(T.ns_obj)
        if bool(q) != g:
            acc.violation("goal_query", mech_of(T, "goal_query"),
                          {"goal_reached(state)": q, "expected": g},
                          T)
        # ... and for states other than the one just produced: the argument
        # state of this call and the kept initial state
        g0 = self.goal(subj, T.S)
        if bool(subj.env.goal_reached(T.arg_state)) != g0:
            acc.violation("goal_query", "goal_query:other_state",
                          {"state": "argument state of the call",
                           "expected": g0}, T)
        if self.initial is not None and g and \
                bool(subj.env.goal_reached(self.initial)):
            acc.violation("goal_query", "goal_query:other_state",
                          {"state": "kept initial state", "expected": False},
                          T)
        acc.count("goal_queries_on_other_states")
        lim = subj.spec.step_limit
        if T.via == "step":
            n = subj.step_calls
            want = lim is not None and n >= lim
            if bool(T.trunc) != want:
                acc.violation("step_limit_flag", "step_limit_flag",
                              {"truncated": T.trunc, "step_calls": n,
                               "limit": lim}, T)
            if subj.env.steps != n:
                acc.violation("step_counter", "step_counter",
                              {"env.steps": subj.env.steps, "step_calls": n},
                              T)
            if lim is not None and n in (lim - 1, lim, lim + 1):
                acc.nontrivial(subj.fp, "limit_edge", n, T.key())
                acc.count(f"limit_edge:{n - lim:+d}")
            acc.count("steps")
        else:
            if T.steps_after != T.steps_before:
                acc.violation("generative_step_counted",
                              "generative_step_counted",
                              {"before": T.steps_before,
                               "after": T.steps_after}, T)
            acc.count("generative_steps")
        sens_rows = [subj.model.row[a] for a in subj.spec.sensitive]
        lacking = [i for i in sens_rows if T.P[1][i] < 2]
        if g:
            acc.nontrivial(subj.fp, "goal", T.post.tobytes())
            acc.count("goal_states")
            if len(acc.samples) < 2:
                s = _sample_of(T)
                s.update(done=bool(T.done), truncated=T.trunc,
                         step_calls=subj.step_calls, limit=lim)
                acc.sample(s)
        elif len(lacking) == 1 and len(sens_rows) > 1:
            acc.nontrivial(subj.fp, "one_missing", T.post.tobytes())
            acc.count("one_sensitive_missing")
        if len(sens_rows) >= 1 and all(T.P[1][i] >= 1 for i in sens_rows) \
                and not g:
            acc.count("all_sensitive_user_or_better_but_not_goal")

    def synthetic(self, subj, rng, n=6):
        """goal_reached on synthetic tensors: chosen access levels on the
        sensitive rows of a copy of the current state."""
        from nasim.envs.state import State
        acc = self.acc
        base = subj.current()
        lay, m = subj.lay, subj.model
        sens_rows = [m.row[a] for a in subj.spec.sensitive]
        for _ in range(n):
            t = base.tensor.copy()
            levels = [rng.choice([0, 1, 2, 2]) for _ in sens_rows]
            for r, lv in zip(sens_rows, levels):
                t[r, lay.ACCESS] = lv
                t[r, lay.COMP] = 1 if lv else 0
            st = State(t, base.host_num_map)
            want = all(lv == 2 for lv in levels)
            got = subj.env.goal_reached(st)
            acc.evaluations += 1
            acc.count("synthetic_goal_queries")
            acc.nontrivial(subj.fp, "synthetic", tuple(levels))
            if bool(got) != want:
                acc.violation("goal_query_synthetic", "goal_query_synthetic",
                              {"levels": levels, "got": got, "want": want},
                              {"kind": "dyn", "spec": subj.spec.canonical(),
                               "route": subj.route, "modes": subj.modes,
                               "hist": [], "op": ["synthetic_goal", levels]})


# ----------------------------------------------------------------------
ERR = ("connection_error", "permission_error", "undefined_error")


def flags_of(info):
    return tuple(bool(info.get(k)) for k in ("success",) + ERR)


class C07(Base):
    prop = "C07"

    def on_reset(self, subj, obs, info):
        """An unseeded reset() has no business with NumPy's global generator:
        re-seeding it there would make every later episode replay the same
        draws (success frequencies of 0 or 1 instead of p)."""
        acc = self.acc
        acc.evaluations += 1
        acc.count("resets_checked_for_rng_use")
        if getattr(subj, "reset_touched_rng", False) and \
                not subj.reset_was_seeded:
            acc.violation("reset_disturbs_global_rng",
                          "reset_disturbs_global_rng",
                          "reset() without a seed changed the state of "
                          "NumPy's global RandomState",
                          {"kind": "dyn", "spec": subj.spec.canonical(),
                           "route": subj.route, "modes": subj.modes,
                           "hist": [], "op": ["reset"]})

    def single(self, T):
        """Checks that apply to one transition."""
        acc = self.acc
        acc.evaluations += 1
        if T.raised:
            return self.raised(T)
        d = T.desc
        f = flags_of(T.info)
        if f[0] and any(f[1:]):
            acc.violation("success_with_error", "success_with_error",
                          {"flags": f}, T)
        if sum(f[1:]) > 1:
            acc.violation("two_error_flags", "two_error_flags",
                          {"flags": f}, T)
        rel = T.extra.get("draw_relevant")
        if rel and T.words == 0:
            # The draw did not come from NumPy's global RandomState, so it
            # cannot be placed: fall back to what the property allows - the
            # outcome frequencies are tested at the end of the run
            # (finalize_frequency) and the effects of a failure are checked
            # on what was observed.
            acc.count("draw_relevant")
            acc.count("draw_relevant_unscripted")
            st = acc.extra.setdefault("c07_unscripted", {})
            n, k = st.get(repr(d["prob"]), (0, 0))
            st[repr(d["prob"])] = (n + 1, k + int(bool(T.success)))
            if not T.success:
                bad = []
                if not np.array_equal(T.pre, T.post):
                    bad.append("state changed")
                if T.info.get("value", 0) != 0:
                    bad.append("value gained")
                if f != (False, False, False, True):
                    bad.append(f"flags {f}")
                if bad:
                    acc.violation("chance_failure_effects",
                                  "chance_failure_effects:unscripted", bad, T)
            return
        if rel:
            if T.u is not None and bool(T.success) != bool(T.exp_success):
                acc.violation(
                    "chance_outcome", mech_of(T, "chance_outcome"),
                    f"all preconditions hold, u={T.u}, p={d['prob']}: "
                    f"expected success={T.exp_success}, got {T.success}",
                    T)
            if T.words != 2:
                acc.violation("draw_count", f"draw_count:{T.words}",
                              {"words_consumed": T.words,
                               "expected": 2}, T)
            acc.count("draw_relevant")
            if d["prob"] == 0.0:
                acc.count("prob0")
            elif d["prob"] == 1.0:
                acc.count("prob1")
            else:
                acc.count("prob_interior")
        if T.gate == G_CHANCE:
            bad = []
            if not np.array_equal(T.pre, T.post):
                bad.append("state changed")
            if T.info.get("value", 0) != 0:
                bad.append("value gained")
            if f != (False, False, False, True):
                bad.append(f"flags {f}")
            if bad:
                acc.violation("chance_failure_effects",
                              mech_of(T, "chance_failure_effects"),
                              bad, T)
            acc.count("chance_failures")
        if d["kind"] == EXPLOIT and T.gate == G_OK and not rel:
            # re-exploit of a compromised host: exempt from chance
            if not T.success:
                acc.violation("reexploit_failed", "reexploit_failed",
                              {"u": T.u, "p": d["prob"]}, T)
            if T.words != 0:
                acc.violation("reexploit_drew", "reexploit_drew",
                              {"words": T.words}, T)
            acc.count("reexploit")
        if T.gate in (G_UNREACH, G_NOPIVOT, G_FWBLOCK) or \
                (T.gate == G_NOACCESS and d["kind"] == PRIVESC):
            # gates that precede the draw: nothing may be drawn
            if T.words != 0:
                acc.violation("draw_before_gate",
                              mech_of(T, "draw_before_gate"),
                              {"words": T.words}, T)

    @staticmethod
    def finalize_frequency(acc):
        """Frequency test for draws that could not be scripted (Hoeffding
        bound at 1e-9 per probability value: never a flaky verdict)."""
        import math
        st = acc.extra.get("c07_unscripted") or {}
        if not st:
            return
        total = sum(n for n, _k in st.values())
        acc.extra["c07_mode"] = "frequency"
        small = []
        for key, (n, k) in st.items():
            p = float(key)
            if p == 1.0 and k != n:
                acc.violation("prob1_failed_by_chance", "frequency:prob1",
                              {"trials": n, "successes": k}, None)
            elif p == 0.0 and k != 0:
                acc.violation("prob0_succeeded", "frequency:prob0",
                              {"trials": n, "successes": k}, None)
            elif 0.0 < p < 1.0:
                if n < 300:
                    small.append((p, n, k))
                    continue
                eps = math.sqrt(math.log(2 / 1e-9) / (2 * n))
                if abs(k / n - p) > eps:
                    acc.violation("success_frequency", "frequency:interior",
                                  {"p": p, "trials": n, "successes": k,
                                   "tolerance": eps}, None)
                acc.count("frequency_tests")
        if small:
            # pool the thin buckets: sum of (outcome - p) over all trials
            N = sum(n for _p, n, _k in small)
            dev = sum(k - n * p for p, n, k in small)
            if N < 300:
                if not acc.counters.get("frequency_tests"):
                    acc.inconclusive.append(
                        f"draw not interceptable and only {N} pooled trials:"
                        " frequency test undecided")
            else:
                eps = math.sqrt(math.log(2 / 1e-9) / (2 * N))
                if abs(dev / N) > eps:
                    acc.violation("success_frequency", "frequency:pooled",
                                  {"trials": N, "mean_deviation": dev / N,
                                   "tolerance": eps}, None)
                acc.count("frequency_tests")
        acc.extra["c07_unscripted_total"] = total

    def pair(self, Tlo, Thi):
        """The same (state, action) with the draw on either side of p."""
        acc = self.acc
        self.single(Tlo)
        self.single(Thi)
        if Tlo.raised or Thi.raised:
            return
        if Tlo.extra.get("draw_relevant") and (Tlo.words == 0 or
                                               Thi.words == 0):
            return      # unscripted draw: decided by finalize_frequency
        d = Tlo.desc
        gate_lo, gate_hi = Tlo.gate, Thi.gate
        if gate_lo == G_NOACCESS and d["kind"] in (SUB_SCAN, PROC_SCAN):
            # on-host scans meet their access test after the draw: which
            # error is reported may depend on it (no property fixes the kind
            # of error); the outcome, the state and the value may not
            for T in (Tlo, Thi):
                if T.success or not np.array_equal(T.pre, T.post) or \
                        T.info.get("value", 0) != 0:
                    acc.violation("gate_failed_depends_on_draw",
                                  mech_of(T, "gate_failed_depends_on_draw"),
                                  {"success": T.success}, T)
            acc.count("pairs_gate_failed")
        elif gate_lo in NETWORK_GATES:
            same = (flags_of(Tlo.info) == flags_of(Thi.info)
                    and np.array_equal(Tlo.post, Thi.post)
                    and Tlo.reward == Thi.reward
                    and Tlo.info.get("value") == Thi.info.get("value"))
            if not same:
                acc.violation("gate_failed_depends_on_draw",
                              mech_of(Tlo, "gate_failed_depends_on_draw"),
                              {"lo": flags_of(Tlo.info),
                               "hi": flags_of(Thi.info)}, Thi)
            acc.count("pairs_gate_failed")
            acc.nontrivial(Tlo.subj.fp, "gatepair", Tlo.key()[:4])
        elif gate_lo == G_HOSTCFG:
            for T in (Tlo, Thi):
                if T.success or not np.array_equal(T.pre, T.post) or \
                        T.info.get("value", 0) != 0:
                    acc.violation("hostcfg_depends_on_draw",
                                  mech_of(T, "hostcfg_depends_on_draw"),
                                  {"success": T.success}, T)
            acc.count("pairs_hostcfg")
        elif Tlo.extra.get("draw_relevant"):
            p = d["prob"]
            if 0.0 < p < 1.0:
                acc.nontrivial(Tlo.subj.fp, "chancepair", Tlo.key()[:4])
                acc.count("pairs_interior")
                if len(acc.samples) < 3:
                    acc.sample({"lo": _sample_of(Tlo), "hi": _sample_of(Thi)})
            elif p == 0.0:
                acc.count("pairs_prob0")
                acc.nontrivial(Tlo.subj.fp, "p0pair", Tlo.key()[:4])
            else:
                acc.count("pairs_prob1")
                acc.nontrivial(Tlo.subj.fp, "p1pair", Tlo.key()[:4])
        elif d["kind"] == EXPLOIT and gate_lo == G_OK:
            acc.count("pairs_reexploit")
            acc.nontrivial(Tlo.subj.fp, "reexpair", Tlo.key()[:4])


# ----------------------------------------------------------------------
ENTITLED = {
    EXPLOIT: ("address", "reachable", "discovered", "compromised", "access",
              "value", "os", "services"),
    PRIVESC: ("address", "reachable", "discovered", "compromised", "access"),
    SRV_SCAN: ("address", "reachable", "discovered", "services"),
    OS_SCAN: ("address", "reachable", "discovered", "os"),
    PROC_SCAN: ("address", "reachable", "discovered", "processes", "access"),
    SUB_SCAN: ("address", "reachable", "discovered", "compromised"),
}
SCANNED_ROW = ("address", "reachable", "discovered")


class C08(Base):
    prop = "C08"

    def aux_row(self, T, obs):
        acc = self.acc
        lay = T.subj.lay
        aux = obs[-1]
        f = flags_of(T.info)
        want = np.zeros(lay.width, dtype=np.float32)
        want[:4] = [float(x) for x in f]
        if not np.array_equal(aux, want):
            acc.violation("aux_row", mech_of(T, "aux_row"),
                          {"aux": aux.tolist(), "flags": f}, T)

    def on_reset(self, subj, obs, info):
        acc = self.acc
        acc.evaluations += 1
        o = subj.obs2d(obs)
        t = subj.current().tensor
        lay = subj.lay
        w = {"kind": "dyn", "spec": subj.spec.canonical(),
             "route": subj.route, "modes": subj.modes, "hist": [],
             "op": ["reset"]}
        if np.any(o[-1] != 0):
            acc.violation("initial_aux_row", "initial_aux_row",
                          {"aux": o[-1].tolist()}, w)
        if subj.modes["fully_obs"]:
            if not np.array_equal(o[:-1], t):
                acc.violation("initial_obs_full", "initial_obs_full", {}, w)
            acc.count("initial_full")
            return
        want = np.zeros_like(t)
        cols = lay.groups["address"] + [lay.REACH, lay.DISC]
        some_unreach = False
        for i in range(lay.nhosts):
            if t[i, lay.REACH]:
                want[i, cols] = t[i, cols]
            else:
                some_unreach = True
        if not np.array_equal(o[:-1], want):
            cells = np.argwhere(o[:-1] != want).tolist()[:8]
            acc.violation("initial_obs_partial", "initial_obs_partial",
                          {"cells": cells}, w)
        acc.count("initial_partial")
        if some_unreach:
            acc.nontrivial(subj.fp, "initial", t.tobytes())

    def on_trans(self, T):
        acc = self.acc
        acc.evaluations += 1
        if T.raised:
            return self.raised(T)
        subj, lay, d = T.subj, T.subj.lay, T.desc
        obs = T.obs
        if obs.shape != subj.shape2d:
            acc.violation("obs_shape", "obs_shape", {"shape": obs.shape},
                          T)
            return
        self.aux_row(T, obs)
        rows = obs[:-1]
        post = T.post
        if subj.modes["fully_obs"]:
            if not np.array_equal(rows, post):
                cells = np.argwhere(rows != post).tolist()[:8]
                acc.violation("full_obs_not_state",
                              mech_of(T, "full_obs_not_state"),
                              {"cells": cells}, T)
            acc.count("full_obs")
            return
        kind = d["kind"]
        # truthful: every non-zero entry equals the resulting state's entry
        nz = rows != 0
        if np.any(rows[nz] != post[nz]):
            cells = np.argwhere(nz & (rows != post)).tolist()[:8]
            acc.violation("untruthful_entry", mech_of(T, "untruthful_entry"),
                          {"cells": cells}, T)
        want = np.zeros_like(post)
        if T.success and kind != NOOP:
            m = subj.model
            ti = m.row[d["target"]]
            if kind == SUB_SCAN:
                t = d["target"]
                disc0 = T.S[3]
                for i, a in enumerate(m.addrs):
                    if subj.spec.conn[t[0]][a[0]]:
                        cols = lay.groups["address"] + [lay.REACH, lay.DISC]
                        want[i, cols] = post[i, cols]
                        if not disc0[i]:
                            want[i, lay.DVALUE] = post[i, lay.DVALUE]
            cols = []
            for g in ENTITLED[kind]:
                cols += lay.groups[g]
            want[ti, :] = 0 if kind != SUB_SCAN else want[ti, :]
            want[ti, cols] = post[ti, cols]
            if kind == SUB_SCAN:
                # the scanning host's own row: address/reach/disc/compromised
                # (+ nothing else); its discovery value only if newly found
                pass
        if not np.array_equal(rows, want):
            diff = np.argwhere(rows != want)
            extra = [c.tolist() for c in diff if rows[tuple(c)] != 0
                     and want[tuple(c)] == 0]
            missing = [c.tolist() for c in diff if want[tuple(c)] != 0]
            code = "not_minimal" if extra else "not_complete"
            acc.violation(code, mech_of(T, code),
                          {"extra_cells": extra[:8],
                           "missing_cells": missing[:8],
                           "success": T.success}, T)
        if T.success and kind != NOOP:
            acc.count(f"ok_obs:{kind}")
            acc.nontrivial(subj.fp, "okobs", kind, T.key())
            if len(acc.samples) < 3 and kind == SUB_SCAN:
                s = _sample_of(T)
                s["obs_nonzero_rows"] = [int(i) for i in
                                         np.nonzero(rows.any(axis=1))[0]]
                acc.sample(s)
        else:
            acc.count("failed_or_noop_obs")
            acc.nontrivial(subj.fp, "failobs", T.key())


# ----------------------------------------------------------------------
class C13(Base):
    """Purity of generative_step and agreement with step."""
    prop = "C13"

    def snapshot(self, subj):
        env = subj.env
        return (env.current_state, env.current_state.tensor.tobytes(),
                env.last_obs, env.last_obs.tensor.tobytes(), env.steps)

    def fresh_initial_state(self, subj):
        """generate_initial_state() must not disturb the environment."""
        acc = self.acc
        acc.evaluations += 1
        snap = self.snapshot(subj)
        st = subj.env.generate_initial_state()
        env = subj.env
        cur, curb, lo, lob, steps = snap
        if env.current_state is not cur or \
                env.current_state.tensor.tobytes() != curb or \
                env.last_obs is not lo or \
                env.last_obs.tensor.tobytes() != lob or env.steps != steps \
                or np.shares_memory(st.tensor, cur.tensor):
            acc.violation("generate_initial_state_disturbs_env",
                          "generate_initial_state_disturbs_env", {}, None)
        acc.count("fresh_initial_states")

    def check_gen(self, T, snap_before):
        """T came from subj.gen(); snap_before = snapshot() taken before."""
        acc = self.acc
        acc.evaluations += 1
        if T.raised:
            return self.raised(T)
        subj = T.subj
        env = subj.env
        cur, curb, lo, lob, steps = snap_before
        bad = []
        if T.arg_state.tensor.tobytes() != T.pre.tobytes():
            bad.append("argument state modified")
        if env.current_state is not cur or \
                env.current_state.tensor.tobytes() != curb:
            bad.append("current_state changed")
        if env.last_obs is not lo or env.last_obs.tensor.tobytes() != lob:
            bad.append("last_obs changed")
        if env.steps != steps:
            bad.append("step counter changed")
        if T.ns_obj is T.arg_state or \
                np.shares_memory(T.ns_obj.tensor, T.arg_state.tensor):
            bad.append("next state shares storage with its input")
        if bad:
            acc.violation("impure_generative_step",
                          "impure:" + "+".join(sorted(bad)),
                          bad, T)
        if not np.array_equal(T.pre, T.post):
            acc.nontrivial(subj.fp, "writes", T.key())
            acc.count("lookaheads_that_change_state")
        if not T.on_current:
            acc.count("lookaheads_on_pooled_state")
            acc.nontrivial(subj.fp, "pooled", T.key())
        acc.count("lookaheads")

    @staticmethod
    def digest(T):
        if T.raised:
            return ("raised", T.raised.split(":")[0])
        return (T.post.tobytes(), T.obs.tobytes(), float(T.reward),
                bool(T.done), flags_of(T.info), float(T.info.get("value", 0)))

    def check_repeat(self, T, digest):
        """The same generative_step(state, action) under the same draw, made
        again later: the result may not depend on anything else."""
        acc = self.acc
        acc.evaluations += 1
        now = self.digest(T)
        if now != digest:
            what = ["raised"] if now[0] == "raised" or digest[0] == "raised" \
                else [n for n, a, b in zip(("next state", "observation",
                                            "reward", "terminal flag",
                                            "flags", "value"), now, digest)
                      if a != b]
            acc.violation("generative_step_depends_on_history",
                          "gen_depends_on_history:" + "+".join(what),
                          {"differs_in": what}, T)
        acc.count("repeated_lookaheads_on_pooled_states")
        acc.nontrivial(T.subj.fp, "repeat", T.key())

    def check_pair(self, Tg, Ts):
        """Tg: generative_step(current, a) ; Ts: step(a), same seed."""
        acc = self.acc
        acc.evaluations += 1
        if Tg.raised or Ts.raised:
            if bool(Tg.raised) != bool(Ts.raised):
                acc.violation("step_vs_gen_exception", "step_vs_gen_exception",
                              {"gen": Tg.raised, "step": Ts.raised},
                              Ts)
            return
        bad = []
        if not np.array_equal(Tg.post, Ts.post):
            bad.append("next state")
        if not np.array_equal(Tg.obs, Ts.obs):
            bad.append("observation")
        if Tg.reward != Ts.reward:
            bad.append("reward")
        if bool(Tg.done) != bool(Ts.done):
            bad.append("terminal flag")
        if not _info_equal(Tg.info, Ts.info):
            bad.append("info")
        if Ts.subj.env.current_state is not Ts.ns_obj or not np.array_equal(
                Ts.subj.env.current_state.tensor, Tg.post):
            bad.append("installed state")
        if bad:
            acc.violation("step_disagrees_with_generative_step",
                          "step_vs_gen:" + "+".join(bad), bad, Ts)
        acc.count("step_gen_pairs")
        acc.nontrivial(Ts.subj.fp, "pair", Ts.key())
        if len(acc.samples) < 2 and not np.array_equal(Ts.pre, Ts.post):
            acc.sample(_sample_of(Ts))


def _info_equal(a, b):
    if a.keys() != b.keys():
        return False
    for k in a:
        x, y = a[k], b[k]
        if isinstance(x, dict) and isinstance(y, dict):
            if {kk: float(v) if not isinstance(v, bool) else v
                    for kk, v in x.items()} != \
               {kk: float(v) if not isinstance(v, bool) else v
                    for kk, v in y.items()}:
                return False
        elif x != y:
            return False
    return True


MONITORS = {"C01": C01, "C02": C02, "C03": C03, "C04": C04, "C05": C05,
            "C06": C06, "C07": C07, "C08": C08, "C13": C13}
