"""Independent encoder / decoder of the documented host-row layout.

Row = [subnet one-hot (B0) | host one-hot (B1) | compromised, reachable,
       discovered, value, discovery value, access | OS... | services... |
       processes...]
with (B0, B1) the address-space bounds and name order = scenario order.
Nothing here touches nasim.HostVector.
"""
import numpy as np


class Layout:
    def __init__(self, spec):
        self.spec = spec
        b0, b1 = spec.eff_bounds
        self.b0, self.b1 = int(b0), int(b1)
        self.sub = slice(0, self.b0)
        self.host = slice(self.b0, self.b0 + self.b1)
        base = self.b0 + self.b1
        self.COMP, self.REACH, self.DISC, self.VALUE, self.DVALUE, \
            self.ACCESS = range(base, base + 6)
        self.os0 = base + 6
        self.srv0 = self.os0 + len(spec.os)
        self.proc0 = self.srv0 + len(spec.services)
        self.width = self.proc0 + len(spec.processes)
        self.os = slice(self.os0, self.srv0)
        self.srv = slice(self.srv0, self.proc0)
        self.proc = slice(self.proc0, self.width)
        self.nhosts = len(spec.addrs)
        self.row_of = {a: i for i, a in enumerate(spec.addrs)}
        self.status_cols = [self.COMP, self.REACH, self.DISC, self.ACCESS]
        self.config_cols = [c for c in range(self.width)
                            if c not in self.status_cols]
        # feature groups (names used by the C08 entitlement table)
        self.groups = {
            "address": list(range(0, base)),
            "compromised": [self.COMP], "reachable": [self.REACH],
            "discovered": [self.DISC], "value": [self.VALUE],
            "discovery_value": [self.DVALUE], "access": [self.ACCESS],
            "os": list(range(self.os0, self.srv0)),
            "services": list(range(self.srv0, self.proc0)),
            "processes": list(range(self.proc0, self.width)),
        }

    def key(self):
        return (self.b0, self.b1, len(self.spec.os), len(self.spec.services),
                len(self.spec.processes))

    # ------------------------------------------------------------------
    def encode_initial(self):
        """The documented initial state tensor, built from the spec."""
        sp = self.spec
        t = np.zeros((self.nhosts, self.width), dtype=np.float32)
        for i, a in enumerate(sp.addrs):
            h = sp.hosts[a]
            t[i, a[0]] = 1
            t[i, self.b0 + a[1]] = 1
            pub = sp.public[a[0]]
            t[i, self.REACH] = 1 if pub else 0
            t[i, self.DISC] = 1 if pub else 0
            t[i, self.VALUE] = sp.host_value(a)
            t[i, self.DVALUE] = h["discovery_value"]
            for j, o in enumerate(sp.os):
                t[i, self.os0 + j] = 1 if o == h["os"] else 0
            for j, s in enumerate(sp.services):
                t[i, self.srv0 + j] = 1 if s in h["services"] else 0
            for j, p in enumerate(sp.processes):
                t[i, self.proc0 + j] = 1 if p in h["processes"] else 0
        return t

    def decode_row(self, row):
        """Row -> dict.  Raises ValueError if the one-hots are malformed."""
        sp = self.spec
        sub = row[self.sub]
        host = row[self.host]
        if (sub != 0).sum() != 1 or (host != 0).sum() != 1:
            raise ValueError("address one-hot malformed")
        return {
            "address": (int(np.argmax(sub)), int(np.argmax(host))),
            "compromised": float(row[self.COMP]),
            "reachable": float(row[self.REACH]),
            "discovered": float(row[self.DISC]),
            "value": float(row[self.VALUE]),
            "discovery_value": float(row[self.DVALUE]),
            "access": float(row[self.ACCESS]),
            "os": {o: float(row[self.os0 + j]) for j, o in enumerate(sp.os)},
            "services": {s: float(row[self.srv0 + j])
                         for j, s in enumerate(sp.services)},
            "processes": {p: float(row[self.proc0 + j])
                          for j, p in enumerate(sp.processes)},
        }

    def status(self, tensor):
        """(comp, access, reach, disc) integer lists, indexed by row."""
        return (tensor[:, self.COMP].astype(int).tolist(),
                tensor[:, self.ACCESS].astype(int).tolist(),
                tensor[:, self.REACH].astype(int).tolist(),
                tensor[:, self.DISC].astype(int).tolist())

    def status_is_clean(self, tensor):
        """status columns hold only documented values (0/1, access 0/1/2)."""
        for c in (self.COMP, self.REACH, self.DISC):
            col = tensor[:, c]
            if not np.all((col == 0) | (col == 1)):
                return False
        a = tensor[:, self.ACCESS]
        return bool(np.all((a == 0) | (a == 1) | (a == 2)))
