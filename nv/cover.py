"""Which lines of the subject did the workload actually execute?

sys.monitoring LINE events on the code objects of the nasim package; every
callback returns DISABLE, so each line costs one event for the whole run.
The result (lines hit / executable lines per file, and the functions never
entered) goes into the evidence so that a reader can see what the monitors
really observed.
"""
import os
import sys
import types

TOOL = 4


class LineCoverage:
    def __init__(self):
        self.hit = {}           # filename -> set(lines)
        self.codes = []
        self.on = False

    def start(self):
        import nasim
        mon = sys.monitoring
        try:
            mon.use_tool_id(TOOL, "nv-cover")
        except ValueError:
            return False
        root = os.path.dirname(os.path.abspath(nasim.__file__))
        self.root = root
        for name, mod in list(sys.modules.items()):
            if not name.startswith("nasim") or mod is None:
                continue
            f = getattr(mod, "__file__", None)
            if not f or not f.startswith(root) or "/agents/" in f or \
                    f.endswith("render.py") or f.endswith("demo.py"):
                continue
            for obj in vars(mod).values():
                if isinstance(obj, types.FunctionType) and \
                        obj.__module__ == name:
                    self._walk(obj.__code__)
                elif isinstance(obj, type) and obj.__module__ == name:
                    for fn in vars(obj).values():
                        fn = getattr(fn, "__func__", fn)
                        fn = getattr(fn, "fget", fn)
                        fn = getattr(fn, "__wrapped__", fn)
                        if isinstance(fn, types.FunctionType):
                            self._walk(fn.__code__)
        hit = self.hit

        def on_line(code, line):
            hit.setdefault(code.co_filename, set()).add(line)
            return mon.DISABLE

        mon.register_callback(TOOL, mon.events.LINE, on_line)
        for c in self.codes:
            mon.set_local_events(TOOL, c, mon.events.LINE)
        self.on = True
        return True

    def _walk(self, code):
        if code in self.codes or not code.co_filename.startswith(self.root):
            return
        self.codes.append(code)
        for c in code.co_consts:
            if isinstance(c, types.CodeType):
                self._walk(c)

    def report(self):
        if not self.on:
            return {}
        per_file = {}
        funcs_never = []
        for c in self.codes:
            lines = {ln for _s, _e, ln in c.co_lines() if ln is not None}
            lines.discard(c.co_firstlineno)
            f = os.path.relpath(c.co_filename, os.path.dirname(self.root))
            d = per_file.setdefault(f, [set(), set()])
            got = self.hit.get(c.co_filename, set()) & lines
            d[0] |= got
            d[1] |= lines
            if lines and not got and not c.co_name.startswith("<"):
                funcs_never.append(f"{os.path.basename(f)}:{c.co_name}")
        return {"hit": {f: sorted(a) for f, (a, b) in per_file.items()},
                "total": {f: len(b) for f, (a, b) in per_file.items()},
                "never": sorted(set(funcs_never))}

    def stop(self):
        if not self.on:
            return
        mon = sys.monitoring
        for c in self.codes:
            try:
                mon.set_local_events(TOOL, c, 0)
            except Exception:       # noqa
                pass
        mon.register_callback(TOOL, mon.events.LINE, None)
        mon.free_tool_id(TOOL)
        self.on = False
