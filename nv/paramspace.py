"""Independent reading of the documented parameterised action space:
vector -> action (decode_vector) and flat action -> vector (vector_for)."""
from .spec import (scan_desc, exploit_desc, privesc_desc, noop_desc, EXPLOIT,
                   PRIVESC, SRV_SCAN, OS_SCAN, SUB_SCAN, PROC_SCAN,
                   SCAN_KINDS)

TYPE_IDX = {EXPLOIT: 0, PRIVESC: 1, SRV_SCAN: 2, OS_SCAN: 3, SUB_SCAN: 4,
            PROC_SCAN: 5}


def decode_vector(sp, v):
    """Own decoder of the documented parameterised mapping."""
    kinds = [EXPLOIT, PRIVESC, SRV_SCAN, OS_SCAN, SUB_SCAN, PROC_SCAN]
    kind = kinds[v[0]]
    subnet = v[1] + 1
    host = v[2] % sp.subnets[subnet]
    tgt = (subnet, host)
    flags = set()
    if v[2] >= sp.subnets[subnet]:
        flags.add("wraparound")
    if kind in SCAN_KINDS:
        return scan_desc(sp, kind, tgt), flags
    os_ = None if v[3] == 0 else sp.os[v[3] - 1]
    if os_ is None:
        flags.add("os_agnostic_request")
    if kind == EXPLOIT:
        srv = sp.services[v[4]]
        for n, e in sp.exploits.items():
            if e["service"] == srv and e["os"] == os_:
                if os_ is None:
                    flags.add("os_agnostic_definition")
                return exploit_desc(sp, n, tgt), flags
    else:
        proc = sp.processes[v[5]]
        for n, e in sp.privescs.items():
            if e["process"] == proc and e["os"] == os_:
                if os_ is None:
                    flags.add("os_agnostic_definition")
                return privesc_desc(sp, n, tgt), flags
    flags.add("undefined_combination")
    return noop_desc(), flags


def vector_for(sp, d, rng=None):
    """A parameterised vector that documents to the same action as flat
    descriptor d, or None if the action is not expressible (shadowed
    duplicate definition, process-less escalation)."""
    t = d["target"]
    v = [TYPE_IDX[d["kind"]], t[0] - 1, t[1], 0, 0, 0]
    if d["kind"] in (EXPLOIT, PRIVESC):
        v[3] = 0 if d["os"] is None else sp.os.index(d["os"]) + 1
        if d["kind"] == EXPLOIT:
            v[4] = sp.services.index(d["service"])
        else:
            if d["process"] is None:
                return None
            v[5] = sp.processes.index(d["process"])
    elif rng is not None:
        v[3] = rng.randrange(len(sp.os) + 1)
        v[4] = rng.randrange(len(sp.services))
        v[5] = rng.randrange(len(sp.processes))
    back, _ = decode_vector(sp, v)
    if back["kind"] != d["kind"] or back["name"] != d["name"] or \
            back["target"] != d["target"]:
        return None
    if rng is not None and rng.random() < 0.3:
        # a host index that wraps around to the same host
        size = sp.subnets[t[0]]
        if t[1] + size < max(sp.subnets):
            v[2] = t[1] + size
    return v


