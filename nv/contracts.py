"""Runtime contracts attached to the real classes from outside (icontract).

* ActionResult class invariant (C07): never success together with an error
  flag, never more than one error flag - every result object created anywhere
  in the process passes through it, including ones the API boundary never
  shows.
* Purity post-conditions (C13): Network.perform_action and
  HostVector.perform_action leave their input untouched and return storage
  that is not shared with it; State.get_observation does not modify the state.

Conditions *record and return True* (a raising contract would abort what it
observes); every condition counts its evaluations - zero evaluations means a
reference bound before decoration bypassed the contract and the check using
it must report 'inconclusive'.
"""
import numpy as np

COUNTS = {}
BREACHES = []
_ATTACHED = False


def _count(name):
    COUNTS[name] = COUNTS.get(name, 0) + 1


def _breach(name, detail):
    if len(BREACHES) < 50:
        BREACHES.append((name, detail))
    COUNTS["breach:" + name] = COUNTS.get("breach:" + name, 0) + 1


# ---- conditions (named functions: icontract maps arguments by name)
def flags_consistent(self):
    _count("actionresult_invariant")
    errs = int(bool(self.connection_error)) + \
        int(bool(self.permission_error)) + int(bool(self.undefined_error))
    if (self.success and errs) or errs > 1:
        _breach("actionresult_flags",
                {"success": bool(self.success),
                 "connection_error": bool(self.connection_error),
                 "permission_error": bool(self.permission_error),
                 "undefined_error": bool(self.undefined_error)})
    return True


def snap_state_bytes(state):
    return state.tensor.tobytes()


def network_pure(state, result, OLD):
    _count("network_perform_action_post")
    if state.tensor.tobytes() != OLD.pre:
        _breach("network_perform_action_modifies_argument", {})
    if result[0] is state or np.shares_memory(result[0].tensor, state.tensor):
        _breach("network_perform_action_returns_shared_storage", {})
    return True


def snap_self_vector(self):
    return self.vector.tobytes()


def hostvector_pure(self, result, OLD):
    _count("hostvector_perform_action_post")
    if self.vector.tobytes() != OLD.pre:
        _breach("hostvector_perform_action_modifies_self", {})
    if result[0] is self or np.shares_memory(result[0].vector, self.vector):
        _breach("hostvector_perform_action_returns_shared_storage", {})
    return True


def snap_self_tensor(self):
    return self.tensor.tobytes()


def observation_pure(self, OLD):
    _count("state_get_observation_post")
    if self.tensor.tobytes() != OLD.pre:
        _breach("get_observation_modifies_state", {})
    return True


class ContractBroken(Exception):
    pass


def attach():
    """Decorate the subject's classes in place.  Idempotent."""
    global _ATTACHED
    if _ATTACHED:
        return True
    import icontract
    from nasim.envs.action import ActionResult
    from nasim.envs.network import Network
    from nasim.envs.host_vector import HostVector
    from nasim.envs.state import State
    icontract.invariant(flags_consistent, error=ContractBroken)(ActionResult)
    Network.perform_action = icontract.snapshot(
        snap_state_bytes, name="pre")(
        icontract.ensure(network_pure, error=ContractBroken)(
            Network.perform_action))
    HostVector.perform_action = icontract.snapshot(
        snap_self_vector, name="pre")(
        icontract.ensure(hostvector_pure, error=ContractBroken)(
            HostVector.perform_action))
    State.get_observation = icontract.snapshot(
        snap_self_tensor, name="pre")(
        icontract.ensure(observation_pure, error=ContractBroken)(
            State.get_observation))
    _ATTACHED = True
    return True


def drain(acc, wanted):
    """Move recorded breaches into the accumulator.  `wanted`: names of the
    evaluation counters this check relies on (0 evaluations -> inconclusive).
    """
    for name, detail in BREACHES:
        acc.violation("contract:" + name, "contract:" + name, detail, None)
    extra = sum(v for k, v in COUNTS.items() if k.startswith("breach:")) - \
        len(BREACHES)
    acc.n_violations += max(0, extra)
    acc.extra["contract_evaluations"] = {
        k: v for k, v in COUNTS.items() if not k.startswith("breach:")}
    for w in wanted:
        if COUNTS.get(w, 0) == 0:
            acc.inconclusive.append(
                f"contract '{w}' was never evaluated (bypassed by an earlier "
                "binding?)")
    BREACHES.clear()
