"""ScenarioSynth: random *valid* scenarios in the documented format.

All randomness comes from the `random.Random` passed in (never NumPy's global
generator, which belongs to the subject).
"""
from .spec import Spec

PROBS = [0.0, 0.3, 0.7, 0.999, 1.0]
COSTS = [1, 2, 0.5, 2.25]
SCAN_COSTS = [0, 0.5, 1, 3]
VALUES = [-5, 0, 0, 1, 2.5, 0.1, 2.1, -0.3]
OS_NAMES = ["linux", "windows", "bsd", "plan9"]
SRV_NAMES = ["ssh", "ftp", "http", "samba", "smtp", "rdp"]
PROC_NAMES = ["tomcat", "daclsvc", "schtask", "cron"]


def _connected_topology(rng, n, extra_edge_p, n_public):
    """n real subnets (1..n); returns (n+1)x(n+1) matrix incl. internet."""
    N = n + 1
    topo = [[1 if i == j else 0 for j in range(N)] for i in range(N)]
    order = list(range(1, N))
    rng.shuffle(order)
    for k in range(1, len(order)):
        a = order[k]
        b = order[rng.randrange(k)]
        topo[a][b] = topo[b][a] = 1
    for a in range(1, N):
        for b in range(a + 1, N):
            if rng.random() < extra_edge_p:
                topo[a][b] = topo[b][a] = 1
    pubs = rng.sample(range(1, N), min(n_public, n))
    for p in pubs:
        topo[0][p] = topo[p][0] = 1
    return topo


def _rule(rng, services, p_empty=0.15, p_all=0.35):
    x = rng.random()
    if x < p_empty:
        return []
    if x < p_empty + p_all:
        return list(services)
    k = rng.randint(1, len(services))
    return rng.sample(services, k)


def _liven(rng, nsub, topo, exploits, hosts, firewall, sizes):
    """Open an attack path (still subject to chance, deny-lists and access
    levels) so that histories get beyond the first subnet: walk the subnets
    breadth-first from the internet and, for most of them, make one host
    vulnerable to a usable exploit whose service the rule on the tree edge
    lets through."""
    usable = [n for n, e in exploits.items() if e["prob"] > 0]
    if not usable:
        n = rng.choice(list(exploits))
        exploits[n]["prob"] = 0.7
        usable = [n]
    seen = {0}
    frontier = [0]
    while frontier:
        nxt = []
        for a in frontier:
            for b in range(1, nsub + 1):
                if b in seen or topo[a][b] != 1:
                    continue
                seen.add(b)
                nxt.append(b)
                if rng.random() < 0.15:
                    continue
                e = exploits[rng.choice(usable)]
                h = hosts[(b, rng.randrange(sizes[b - 1]))]
                if e["service"] not in h["services"]:
                    h["services"].append(e["service"])
                if e["os"] is not None:
                    h["os"] = e["os"]
                if e["service"] not in firewall[(a, b)]:
                    firewall[(a, b)].append(e["service"])
        frontier = nxt


def synth(rng, tier="quick", route=None, **force):
    """One random valid Spec.  route: 'yaml' (only YAML-expressible features)
    or 'dict' (also discovery values, custom bounds, process-less privescs).
    """
    big = tier == "thorough"
    route = route or rng.choice(["yaml", "dict"])
    nsub = force.get("nsub") or rng.randint(1, 6 if big else 4)
    sizes = [rng.randint(1, 4 if big else 3) for _ in range(nsub)]
    if not (force.get("nsub") or force.get("max_hosts") or
            force.get("wide")) and rng.random() < 0.06:
        # two-digit subnet ids (10-13 subnets), sometimes a two-digit host id
        nsub = rng.randint(10, 13)
        sizes = [rng.randint(1, 2) for _ in range(nsub)]
        if rng.random() < 0.3:
            sizes[rng.randrange(nsub)] = rng.randint(11, 12)
    if force.get("wide"):
        sizes = [rng.randint(3, 8) for _ in range(nsub)]
    if force.get("max_hosts"):
        while sum(sizes) > force["max_hosts"]:
            i = rng.randrange(nsub)
            if sizes[i] > 1:
                sizes[i] -= 1
            elif nsub > 1:
                sizes.pop(i)
                nsub -= 1
    n_public = rng.choice([1, 1, 1, 2, 2, 3] if big else [1, 1, 2])
    topo = _connected_topology(rng, nsub, rng.choice([0.0, 0.2, 0.5]),
                               n_public)
    if nsub >= 4 and (force.get("ring") or rng.random() < 0.2):
        # ring with one or two entrances: subnets can be approached from
        # either side, also "from behind"
        N0 = nsub + 1
        topo = [[1 if i == j else 0 for j in range(N0)] for i in range(N0)]
        ring = list(range(1, N0))
        rng.shuffle(ring)
        for i, a in enumerate(ring):
            b = ring[(i + 1) % len(ring)]
            topo[a][b] = topo[b][a] = 1
        for pub in rng.sample(ring, rng.choice([1, 2])):
            topo[0][pub] = topo[pub][0] = 1
    if nsub >= 3 and rng.random() < 0.05 and not force.get("connected"):
        # valid but odd: one non-public subnet cut off from the rest
        cand = [s for s in range(1, nsub + 1) if topo[s][0] == 0]
        if cand:
            s = rng.choice(cand)
            for b in range(nsub + 1):
                if b != s:
                    topo[s][b] = topo[b][s] = 0
    oss = OS_NAMES[:rng.randint(1, 3)]
    srvs = SRV_NAMES[:rng.randint(1, 4)]
    procs = PROC_NAMES[:rng.randint(1, 3)]
    if rng.random() < 0.15:
        # names may be anything: the same word as a service and a process,
        # or as an OS and a service, is a valid (if unusual) scenario
        if rng.random() < 0.6:
            procs[rng.randrange(len(procs))] = rng.choice(srvs)
        else:
            oss[rng.randrange(len(oss))] = rng.choice(srvs + procs)
        procs = list(dict.fromkeys(procs))
        oss = list(dict.fromkeys(oss))
    if rng.random() < 0.25:
        # names are free-form: capitals, digits, dashes
        style = rng.choice([str.capitalize, str.upper,
                            lambda s: s + "-2", lambda s: s[:1].upper() +
                            s[1:] + "Srv"])
        which = rng.choice(["os", "srv", "proc", "all"])
        if which in ("os", "all"):
            oss = [style(x) for x in oss]
        if which in ("srv", "all"):
            srvs = [style(x) for x in srvs]
        if which in ("proc", "all"):
            procs = [style(x) for x in procs]
    rng.shuffle(oss), rng.shuffle(srvs), rng.shuffle(procs)
    det = force.get("deterministic", False)
    exploits = {}
    for i in range(rng.randint(1, 5)):
        exploits[f"e_{i}"] = {
            "service": rng.choice(srvs),
            "os": rng.choice(oss + [None]),
            "prob": 1.0 if det else rng.choice(PROBS),
            "cost": rng.choice(COSTS),
            "access": rng.choice([1, 1, 2]),
        }
    privescs = {}
    for i in range(rng.randint(0, 3)):
        proc = rng.choice(procs)
        if route == "dict" and rng.random() < 0.1:
            proc = None
        privescs[f"pe_{i}"] = {
            "process": proc,
            "os": rng.choice(oss + [None]),
            "prob": 1.0 if det else rng.choice([0.0, 0.5, 1.0, 1.0]),
            "cost": rng.choice(COSTS),
            "access": rng.choice([2, 2, 2, 1]),
        }
    addrs = [(s + 1, h) for s in range(nsub) for h in range(sizes[s])]
    order = list(addrs)
    if rng.random() < 0.3:
        rng.shuffle(order)          # host_configurations in arbitrary order
    n_sens = min(len(addrs), rng.randint(1, 3))
    sens_addrs = rng.sample(addrs, n_sens)
    sensitive = {a: rng.choice([100, 10, 0.5, 42.5, 99.9, 1, 16777217])
                 for a in sens_addrs}
    ex_srvs = [e["service"] for e in exploits.values()]
    hosts = {}
    for a in order:
        k = rng.randint(1, len(srvs))
        hs = rng.sample(srvs, k)
        if rng.random() < 0.6 and rng.choice(ex_srvs) not in hs:
            hs.append(rng.choice(ex_srvs))
            hs = list(dict.fromkeys(hs))
        hp = rng.sample(procs, rng.randint(0, len(procs)))
        fw = {}
        if rng.random() < 0.35:
            for src in rng.sample(addrs, rng.randint(1, min(3, len(addrs)))):
                fw[src] = rng.sample(srvs, rng.randint(1, len(srvs)))
        hosts[a] = {
            "os": rng.choice(oss), "services": hs, "processes": hp,
            "value": 0.0 if a in sensitive else rng.choice(VALUES),
            "discovery_value": (rng.choice([0, 0, 1, 2.5])
                                if route == "dict" else 0.0),
            "firewall": fw,
        }
    N = nsub + 1
    firewall = {}
    for a in range(N):
        for b in range(N):
            if a != b and topo[a][b] == 1:
                if b == 0:
                    firewall[(a, b)] = _rule(rng, srvs, 0.5, 0.2)
                else:
                    firewall[(a, b)] = _rule(rng, srvs)
    if rng.random() < force.get("live", 0.75):
        _liven(rng, nsub, topo, exploits, hosts, firewall, sizes)
    if rng.random() < (0.3 if nsub >= 3 else 0.1):
        # a rule for a pair of subnets that the topology does not connect:
        # accepted by the loader, but no traffic may flow along it
        pairs = [(a, b) for a in range(1, N) for b in range(1, N)
                 if a != b and topo[a][b] == 0]
        for a, b in rng.sample(pairs, min(len(pairs), 2)):
            firewall[(a, b)] = list(srvs)
            # ... while the subnets that really are connected to b block one
            # exploitable service that a host of b runs
            usable = [e for e in exploits.values() if e["prob"] > 0]
            if usable and rng.random() < 0.7:
                e = rng.choice(usable)
                for c in range(1, N):
                    if c != b and topo[c][b] == 1 and \
                            e["service"] in firewall[(c, b)]:
                        firewall[(c, b)].remove(e["service"])
                h = hosts[(b, rng.randrange(sizes[b - 1]))]
                if e["service"] not in h["services"]:
                    h["services"].append(e["service"])
                if e["os"] is not None:
                    h["os"] = e["os"]
    bounds = None
    if route == "dict" and rng.random() < 0.3:
        bounds = (N + rng.randint(0, 3), max(sizes) + rng.randint(0, 3))
    sl = force.get("step_limit", "rand")
    if sl == "rand":
        sl = rng.choice([None, None, rng.randint(1, 30), rng.randint(1, 8)])
    return Spec(
        name=f"synth-{route}", origin=f"synth:{route}",
        subnets=[1] + sizes, topology=topo, os=oss, services=srvs,
        processes=procs, exploits=exploits, privescs=privescs,
        scan_costs={"service_scan_cost": rng.choice(SCAN_COSTS),
                    "os_scan_cost": rng.choice(SCAN_COSTS),
                    "subnet_scan_cost": rng.choice(SCAN_COSTS),
                    "process_scan_cost": rng.choice(SCAN_COSTS)},
        sensitive=sensitive, hosts=hosts, firewall=firewall,
        step_limit=sl, bounds=bounds)


def ring(rng, route=None):
    """Ring of 5-7 subnets with one or two entrances and an open attack
    path: deep subnets can be reached from either side."""
    return synth(rng, "quick", route=route, nsub=rng.randint(5, 7),
                 max_hosts=rng.randint(7, 10), ring=True, live=1.0,
                 connected=True)


def wide(rng, route=None):
    """Few subnets with many hosts each (host index >= number of subnets)."""
    n = rng.randint(1, 3)
    return synth(rng, "quick", route=route, nsub=n, wide=True, live=1.0)


def micro(rng, route=None):
    """Very small scenario for exhaustive exploration (<= 5 hosts)."""
    return synth(rng, "quick", route=route, nsub=rng.randint(1, 3),
                 max_hosts=rng.randint(2, 5))


def refused_pivot(rng, route=None):
    """A foothold subnet with two or three exploitable hosts in front of an
    inner subnet whose hosts refuse, in their own firewall, the exploitable
    service from some of the footholds but not from the others: whether an
    attack on the inner host gets through depends on which foothold is used.
    """
    route = route or rng.choice(["yaml", "dict"])
    srvs = SRV_NAMES[:rng.randint(1, 3)]
    rng.shuffle(srvs)
    oss = OS_NAMES[:rng.randint(1, 2)]
    procs = PROC_NAMES[:1]
    n_front = rng.randint(2, 3)
    n_inner = rng.randint(1, 2)
    s0 = srvs[0]
    exploits = {"e_0": {"service": s0, "os": None,
                        "prob": rng.choice([1.0, 1.0, 0.7]),
                        "cost": rng.choice(COSTS),
                        "access": rng.choice([1, 2])}}
    if len(srvs) > 1 and rng.random() < 0.5:
        exploits["e_1"] = {"service": srvs[1], "os": oss[0], "prob": 1.0,
                           "cost": rng.choice(COSTS), "access": 2}
    front = [(1, i) for i in range(n_front)]
    inner = [(2, i) for i in range(n_inner)]
    refused = rng.sample(front, rng.randint(1, n_front - 1))
    ex_srvs = sorted({e["service"] for e in exploits.values()})
    hosts = {}
    for a in front + inner:
        hs = list(dict.fromkeys([s0] + rng.sample(srvs, rng.randint(
            1, len(srvs)))))
        fw = {}
        if a in inner:
            fw = {src: list(ex_srvs) for src in refused}
        hosts[a] = {"os": rng.choice(oss), "services": hs,
                    "processes": rng.sample(procs, rng.randint(0, 1)),
                    "value": rng.choice([0, 0, 1]), "discovery_value": 0.0,
                    "firewall": fw}
    sensitive = {inner[0]: rng.choice([100, 10])}
    hosts[inner[0]]["value"] = 0.0
    topo = [[1, 1, 0], [1, 1, 1], [0, 1, 1]]
    firewall = {(0, 1): list(srvs), (1, 0): [], (1, 2): list(srvs),
                (2, 1): list(srvs)}
    return Spec(
        name=f"synth-{route}", origin=f"synth:{route}",
        subnets=[1, n_front, n_inner], topology=topo, os=oss, services=srvs,
        processes=procs, exploits=exploits, privescs={},
        scan_costs={"service_scan_cost": 1, "os_scan_cost": 1,
                    "subnet_scan_cost": 1, "process_scan_cost": 1},
        sensitive=sensitive, hosts=hosts, firewall=firewall,
        step_limit=None, bounds=None)


def two_entrances(rng, route=None):
    """A chain of 4-6 subnets whose two ends are both public, every host
    exploitable and the firewalls open along the chain: entered from one end
    only, the subnets near the other end are approached "from behind" (they
    are closer to the internet than the subnet they are discovered from)."""
    route = route or rng.choice(["yaml", "dict"])
    k = rng.randint(4, 6)
    sizes = [rng.randint(1, 2) for _ in range(k)]
    N = k + 1
    topo = [[1 if i == j else 0 for j in range(N)] for i in range(N)]
    for a in range(1, k):
        topo[a][a + 1] = topo[a + 1][a] = 1
    topo[0][1] = topo[1][0] = 1
    topo[0][k] = topo[k][0] = 1
    srvs = SRV_NAMES[:rng.randint(1, 2)]
    oss = OS_NAMES[:rng.randint(1, 2)]
    procs = PROC_NAMES[:rng.randint(1, 2)]
    exploits = {"e_0": {"service": srvs[0], "os": None,
                        "prob": rng.choice([1.0, 1.0, 0.7]),
                        "cost": rng.choice(COSTS), "access": 2}}
    privescs = {}
    if rng.random() < 0.4:
        exploits["e_0"]["access"] = 1
        privescs["pe_0"] = {"process": procs[0], "os": None, "prob": 1.0,
                            "cost": rng.choice(COSTS), "access": 2}
    addrs = [(s + 1, h) for s in range(k) for h in range(sizes[s])]
    sens = rng.sample([a for a in addrs if 1 < a[0] < k], 1) + \
        rng.sample(addrs, rng.randint(0, 1))
    sensitive = {a: rng.choice([100, 10, 42.5]) for a in sens}
    hosts = {}
    for a in addrs:
        hosts[a] = {"os": rng.choice(oss), "services": list(srvs),
                    "processes": list(procs),
                    "value": 0.0 if a in sensitive else rng.choice(VALUES),
                    "discovery_value": (rng.choice([0, 1, 2.5, 6])
                                        if route == "dict" else 0.0),
                    "firewall": {}}
    firewall = {}
    for a in range(N):
        for b in range(N):
            if a != b and topo[a][b]:
                firewall[(a, b)] = [] if b == 0 else list(srvs)
    return Spec(
        name=f"synth-{route}", origin=f"synth:{route}",
        subnets=[1] + sizes, topology=topo, os=oss, services=srvs,
        processes=procs, exploits=exploits, privescs=privescs,
        scan_costs={"service_scan_cost": 1, "os_scan_cost": 1,
                    "subnet_scan_cost": rng.choice(SCAN_COSTS),
                    "process_scan_cost": 1},
        sensitive=sensitive, hosts=hosts, firewall=firewall,
        step_limit=None, bounds=None)
