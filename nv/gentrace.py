"""Logical-step budget for nasim's scenario generator.

sys.monitoring LINE events are enabled on the code objects of
nasim/scenarios/generator.py only; every executed line counts one step.  When
the budget is exceeded the callback raises, which aborts the generator where
it loops: the verdict "did not terminate within N interpreter steps" is taken
on logical steps, never on wall-clock time.
"""
import sys
import types

TOOL = 3            # a free sys.monitoring tool id


class BudgetExceeded(BaseException):
    """BaseException so that no `except Exception` inside the subject can
    swallow it."""

    def __init__(self, steps, where):
        super().__init__(f"generator exceeded {steps} interpreter steps at "
                         f"{where}")
        self.steps = steps
        self.where = where


def _code_objects(module):
    seen = []

    def walk(code):
        seen.append(code)
        for c in code.co_consts:
            if isinstance(c, types.CodeType):
                walk(c)

    for obj in vars(module).values():
        if isinstance(obj, types.FunctionType) and \
                obj.__module__ == module.__name__:
            walk(obj.__code__)
        elif isinstance(obj, type) and obj.__module__ == module.__name__:
            for f in vars(obj).values():
                f = getattr(f, "__func__", f)
                if isinstance(f, types.FunctionType):
                    walk(f.__code__)
    return seen


class StepCounter:
    """with StepCounter(budget) as sc: ... ; sc.steps afterwards."""

    def __init__(self, budget):
        self.budget = budget
        self.steps = 0
        self.line_hits = {}

    def __enter__(self):
        import nasim.scenarios.generator as g
        mon = sys.monitoring
        self.mon = mon
        self.codes = _code_objects(g)
        mon.use_tool_id(TOOL, "nv-gentrace")

        def on_line(code, line):
            self.steps += 1
            if self.steps > self.budget:
                raise BudgetExceeded(self.steps,
                                     f"{code.co_name}:{line}")

        mon.register_callback(TOOL, mon.events.LINE, on_line)
        for c in self.codes:
            mon.set_local_events(TOOL, c, mon.events.LINE)
        return self

    def __exit__(self, *exc):
        mon = self.mon
        for c in self.codes:
            mon.set_local_events(TOOL, c, 0)
        mon.register_callback(TOOL, mon.events.LINE, None)
        mon.free_tool_id(TOOL)
        return False
