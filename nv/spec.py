"""Independent scenario description ("spec") used by every monitor.

A Spec is plain Python data written from the documented scenario format.  It
never imports nasim at module level; the two converters that build / read
nasim objects import it lazily, so that the reference model and the decoders
stay independent of the subject.
"""
import hashlib
import json
import re

NOOP, SRV_SCAN, OS_SCAN, SUB_SCAN, PROC_SCAN, EXPLOIT, PRIVESC = (
    "noop", "service_scan", "os_scan", "subnet_scan", "process_scan",
    "exploit", "privesc")
SCAN_KINDS = (SRV_SCAN, OS_SCAN, SUB_SCAN, PROC_SCAN)
SCAN_COST_KEYS = {SRV_SCAN: "service_scan_cost", OS_SCAN: "os_scan_cost",
                  SUB_SCAN: "subnet_scan_cost", PROC_SCAN: "process_scan_cost"}
ACCESS_WORDS = {"user": 1, "root": 2, 1: 1, 2: 2}

_ADDR_RE = re.compile(r"^\s*\(\s*(-?\d+)\s*,\s*(-?\d+)\s*\)\s*$")


def parse_addr(text):
    """'(1, 0)' -> (1, 0) without eval."""
    if isinstance(text, (tuple, list)) and len(text) == 2:
        return (int(text[0]), int(text[1]))
    m = _ADDR_RE.match(str(text))
    if not m:
        raise ValueError(f"not an address: {text!r}")
    return (int(m.group(1)), int(m.group(2)))


class Spec:
    """Plain scenario description.

    subnets     [1, n1, n2, ...]  (entry 0 = the internet pseudo-subnet)
    topology    square 0/1 matrix, index 0 = internet
    os, services, processes   name lists in scenario order
    exploits    name -> {service, os|None, prob, cost, access(1|2)}
    privescs    name -> {process|None, os|None, prob, cost, access(1|2)}
    scan_costs  {service_scan, os_scan, subnet_scan, process_scan}
    sensitive   addr -> value
    hosts       addr -> {os, services[list], processes[list], value,
                         discovery_value, firewall{addr: [svc]}}   (ordered)
    firewall    (src, dst) -> [allowed services]
    step_limit  int | None
    bounds      (subnets, hosts) | None
    """

    def __init__(self, **kw):
        self.name = kw.get("name", "spec")
        self.subnets = list(kw["subnets"])
        self.topology = [list(map(int, r)) for r in kw["topology"]]
        self.os = list(kw["os"])
        self.services = list(kw["services"])
        self.processes = list(kw["processes"])
        self.exploits = {k: dict(v) for k, v in kw["exploits"].items()}
        self.privescs = {k: dict(v) for k, v in kw["privescs"].items()}
        self.scan_costs = dict(kw["scan_costs"])
        self.sensitive = dict(kw["sensitive"])
        self.hosts = {a: dict(h) for a, h in kw["hosts"].items()}
        self.firewall = {k: list(v) for k, v in kw["firewall"].items()}
        self.step_limit = kw.get("step_limit")
        self.bounds = tuple(kw["bounds"]) if kw.get("bounds") else None
        self.origin = kw.get("origin", "?")
        self._derive()

    # ------------------------------------------------------------------
    def _derive(self):
        self.addrs = list(self.hosts.keys())
        self.nsub = len(self.subnets)
        self.public = [False] + [self.topology[s][0] == 1
                                 for s in range(1, self.nsub)]
        self.conn = [[self.topology[a][b] == 1 for b in range(self.nsub)]
                     for a in range(self.nsub)]
        self.hosts_in = {s: [a for a in self.addrs if a[0] == s]
                         for s in range(self.nsub)}
        self.eff_bounds = self.bounds or (len(self.subnets),
                                          max(self.subnets))
        for a, h in self.hosts.items():
            h.setdefault("value", 0.0)
            h.setdefault("discovery_value", 0.0)
            h.setdefault("firewall", {})
        self.fw_sets = {k: frozenset(v) for k, v in self.firewall.items()}
        self.deny = {a: {s: frozenset(v) for s, v in h["firewall"].items()}
                     for a, h in self.hosts.items()}

    def host_value(self, addr):
        if addr in self.sensitive:
            return float(self.sensitive[addr])
        return float(self.hosts[addr]["value"])

    # ------------------------------------------------------------------
    def canonical(self):
        def num(x):
            # keep int/float distinction (a replay must feed the same types)
            if x is None or isinstance(x, (int, float)):
                return x
            return float(x)
        return {
            "subnets": self.subnets,
            "topology": self.topology,
            "os": self.os, "services": self.services,
            "processes": self.processes,
            "exploits": {k: {"service": v["service"], "os": v["os"],
                             "prob": num(v["prob"]), "cost": num(v["cost"]),
                             "access": int(v["access"])}
                         for k, v in self.exploits.items()},
            "exploit_order": list(self.exploits),
            "privescs": {k: {"process": v["process"], "os": v["os"],
                             "prob": num(v["prob"]), "cost": num(v["cost"]),
                             "access": int(v["access"])}
                         for k, v in self.privescs.items()},
            "privesc_order": list(self.privescs),
            "scan_costs": {k: num(v) for k, v in self.scan_costs.items()},
            "sensitive": {str(k): num(v) for k, v in self.sensitive.items()},
            "hosts": [[list(a), h["os"], sorted(h["services"]),
                       sorted(h["processes"]), num(self.host_value(a)),
                       num(h["discovery_value"]),
                       {str(s): sorted(v) for s, v in
                        sorted(h["firewall"].items())}]
                      for a, h in self.hosts.items()],
            "firewall": {str(k): sorted(v)
                         for k, v in sorted(self.firewall.items())},
            "step_limit": self.step_limit,
            "bounds": list(self.bounds) if self.bounds else None,
        }

    def fingerprint(self):
        blob = json.dumps(self.canonical(), sort_keys=True)
        return hashlib.sha256(blob.encode()).hexdigest()[:16]

    def summary(self):
        return {"name": self.name, "origin": self.origin,
                "fp": self.fingerprint(), "subnets": self.subnets[1:],
                "hosts": len(self.hosts), "os": len(self.os),
                "services": len(self.services),
                "processes": len(self.processes),
                "exploits": len(self.exploits),
                "privescs": len(self.privescs),
                "step_limit": self.step_limit}

    # ------------------------------------------------------------------
    # YAML route
    def to_yaml_dict(self, style=None):
        """The document (as Python data) in the documented YAML format."""
        style = style or {}
        acc = (lambda a: {1: "user", 2: "root"}[a]) \
            if style.get("access_words", True) else (lambda a: a)
        none = style.get("none_word", "none")

        def osname(o):
            return none if o is None else o
        doc = {}
        doc["subnets"] = list(self.subnets[1:])
        doc["topology"] = [list(r) for r in self.topology]
        spell = style.get("addr_spelling", "(%d, %d)")
        doc["sensitive_hosts"] = {spell % a: v
                                  for a, v in self.sensitive.items()}
        doc["os"] = list(self.os)
        doc["services"] = list(self.services)
        doc["processes"] = list(self.processes)
        doc["exploits"] = {
            n: {"service": e["service"], "os": osname(e["os"]),
                "prob": e["prob"], "cost": e["cost"],
                "access": acc(e["access"])}
            for n, e in self.exploits.items()}
        doc["privilege_escalation"] = {
            n: {"process": e["process"], "os": osname(e["os"]),
                "prob": e["prob"], "cost": e["cost"],
                "access": acc(e["access"])}
            for n, e in self.privescs.items()}
        for k in ("service_scan_cost", "os_scan_cost", "subnet_scan_cost",
                  "process_scan_cost"):
            doc[k] = self.scan_costs[k]
        hc = {}
        shared = {}
        for a, h in self.hosts.items():
            c = {"os": h["os"], "services": list(h["services"]),
                 "processes": list(h["processes"])}
            if h["firewall"] or style.get("empty_host_fw"):
                c["firewall"] = {spell % s: list(v)
                                 for s, v in h["firewall"].items()}
            explicit = style.get("explicit_values", True)
            if a in self.sensitive:
                if style.get("sensitive_value_in_cfg"):
                    c["value"] = self.sensitive[a]
            elif h["value"] != 0 or (explicit and style.get("zero_values")):
                c["value"] = h["value"]
            if style.get("share_identical_host_cfgs"):
                # the same mapping object for identical configurations: the
                # YAML emitter writes it once with an anchor and refers to
                # it with aliases (&id001 / *id001)
                key = repr(sorted(c.items(), key=lambda kv: kv[0]))
                c = shared.setdefault(key, c)
            hc[str(a)] = c
        doc["host_configurations"] = hc
        doc["firewall"] = {str(k): list(v) for k, v in self.firewall.items()}
        if self.step_limit is not None:
            doc["step_limit"] = self.step_limit
        return doc

    def to_yaml_text(self, style=None, flow=None):
        import yaml
        doc = self.to_yaml_dict(style)
        return yaml.safe_dump(doc, default_flow_style=flow, sort_keys=False)

    # ------------------------------------------------------------------
    def to_scenario(self):
        """Dict route: build a nasim Scenario directly (discovery values and
        custom address-space bounds are only expressible this way)."""
        from nasim.scenarios.scenario import Scenario
        from nasim.scenarios.host import Host
        import nasim.scenarios.utils as u
        hosts = {}
        for a, h in self.hosts.items():
            hosts[a] = Host(
                address=a,
                os={o: (o == h["os"]) for o in self.os},
                services={s: (s in h["services"]) for s in self.services},
                processes={p: (p in h["processes"]) for p in self.processes},
                firewall={s: list(v) for s, v in h["firewall"].items()},
                value=self.host_value(a),
                discovery_value=float(h["discovery_value"]))
        d = {
            u.SUBNETS: list(self.subnets),
            u.TOPOLOGY: [list(r) for r in self.topology],
            u.OS: list(self.os), u.SERVICES: list(self.services),
            u.PROCESSES: list(self.processes),
            u.SENSITIVE_HOSTS: dict(self.sensitive),
            u.EXPLOITS: {n: dict(e) for n, e in self.exploits.items()},
            u.PRIVESCS: {n: dict(e) for n, e in self.privescs.items()},
            u.SERVICE_SCAN_COST: self.scan_costs["service_scan_cost"],
            u.OS_SCAN_COST: self.scan_costs["os_scan_cost"],
            u.SUBNET_SCAN_COST: self.scan_costs["subnet_scan_cost"],
            u.PROCESS_SCAN_COST: self.scan_costs["process_scan_cost"],
            u.FIREWALL: {k: list(v) for k, v in self.firewall.items()},
            u.HOSTS: hosts,
            u.STEP_LIMIT: self.step_limit,
        }
        if self.bounds:
            d[u.ADDRESS_SPACE_BOUNDS] = tuple(self.bounds)
        return Scenario(d, name=self.name)


# ----------------------------------------------------------------------
def spec_from_yaml_doc(doc, name="yaml", origin="yaml"):
    """Independent reading of a document in the documented YAML format
    (`doc` is what yaml.safe_load returned).  No eval, no nasim."""
    def osname(o):
        return None if (o is None or str(o).lower() == "none") else o
    subnets = [1] + [int(x) for x in doc["subnets"]]
    sens = {parse_addr(k): v for k, v in doc["sensitive_hosts"].items()}
    hosts = {}
    for k, c in doc["host_configurations"].items():
        a = parse_addr(k)
        hosts[a] = {
            "os": c["os"], "services": list(c["services"]),
            "processes": list(c["processes"]),
            "value": float(c.get("value", 0.0)),
            "discovery_value": 0.0,
            "firewall": {parse_addr(s): list(v)
                         for s, v in (c.get("firewall") or {}).items()},
        }
    exploits = {n: {"service": e["service"], "os": osname(e["os"]),
                    "prob": e["prob"], "cost": e["cost"],
                    "access": ACCESS_WORDS[e["access"]]}
                for n, e in doc["exploits"].items()}
    privescs = {n: {"process": e["process"], "os": osname(e["os"]),
                    "prob": e["prob"], "cost": e["cost"],
                    "access": ACCESS_WORDS[e["access"]]}
                for n, e in (doc["privilege_escalation"] or {}).items()}
    return Spec(
        name=name, origin=origin, subnets=subnets, topology=doc["topology"],
        os=doc["os"], services=doc["services"], processes=doc["processes"],
        exploits=exploits, privescs=privescs,
        scan_costs={k: doc[k] for k in SCAN_COST_KEYS.values()},
        sensitive=sens, hosts=hosts,
        firewall={parse_addr(k): list(v) for k, v in doc["firewall"].items()},
        step_limit=doc.get("step_limit"), bounds=None)


def spec_from_yaml_file(path, name=None):
    import yaml
    with open(path) as f:
        doc = yaml.safe_load(f)
    import os
    return spec_from_yaml_doc(doc, name=name or os.path.basename(path),
                              origin="yaml:" + os.path.basename(path))


def spec_from_scenario(scenario, name=None, origin="nasim"):
    """Read a nasim Scenario object (the only source for generator output)."""
    d = scenario.scenario_dict
    hosts = {}
    for a, h in d["host"].items():
        a = (int(a[0]), int(a[1]))
        os_name = [o for o, v in h.os.items() if v]
        hosts[a] = {
            "os": os_name[0] if len(os_name) == 1 else os_name,
            "services": [s for s, v in h.services.items() if v],
            "processes": [p for p, v in h.processes.items() if v],
            "value": float(h.value),
            "discovery_value": float(h.discovery_value),
            "firewall": {tuple(s) if not isinstance(s, str) else s: list(v)
                         for s, v in h.firewall.items()},
        }

    def n(o):
        return None if o is None else str(o)
    exploits = {str(k): {"service": str(e["service"]), "os": n(e["os"]),
                         "prob": float(e["prob"]), "cost": e["cost"],
                         "access": int(e["access"])}
                for k, e in d["exploits"].items()}
    privescs = {str(k): {"process": n(e["process"]), "os": n(e["os"]),
                         "prob": float(e["prob"]), "cost": e["cost"],
                         "access": int(e["access"])}
                for k, e in d["privilege_escalation"].items()}
    topo = [[int(x) for x in row] for row in d["topology"]]
    return Spec(
        name=name or scenario.name or "scenario", origin=origin,
        subnets=[int(x) for x in d["subnets"]], topology=topo,
        os=[str(x) for x in d["os"]], services=[str(x) for x in d["services"]],
        processes=[str(x) for x in d["processes"]],
        exploits=exploits, privescs=privescs,
        scan_costs={k: d[k] for k in SCAN_COST_KEYS.values()},
        sensitive={(int(a[0]), int(a[1])): v
                   for a, v in d["sensitive_hosts"].items()},
        hosts=hosts,
        firewall={(int(k[0]), int(k[1])): [str(s) for s in v]
                  for k, v in d["firewall"].items()},
        step_limit=d.get("step_limit"),
        bounds=d.get("address_space_bounds"))


# ----------------------------------------------------------------------
# Action descriptors: plain dicts derived from the spec, never from the
# subject's Action attributes other than (class name, name, target).
def flat_descriptors(spec):
    """The documented flat action list, built from the spec alone."""
    out = []
    for a in spec.addrs:
        for kind in (SRV_SCAN, OS_SCAN, SUB_SCAN, PROC_SCAN):
            out.append(scan_desc(spec, kind, a))
        for n in spec.exploits:
            out.append(exploit_desc(spec, n, a))
        for n in spec.privescs:
            out.append(privesc_desc(spec, n, a))
    return out


def scan_desc(spec, kind, addr):
    return {"kind": kind, "target": addr, "name": kind,
            "cost": spec.scan_costs[SCAN_COST_KEYS[kind]], "prob": 1.0,
            "req_access": 1}


def exploit_desc(spec, name, addr):
    e = spec.exploits[name]
    return {"kind": EXPLOIT, "target": addr, "name": name,
            "service": e["service"], "os": e["os"], "access": int(e["access"]),
            "cost": e["cost"], "prob": float(e["prob"]), "req_access": 1}


def privesc_desc(spec, name, addr):
    e = spec.privescs[name]
    return {"kind": PRIVESC, "target": addr, "name": name,
            "process": e["process"], "os": e["os"],
            "access": int(e["access"]), "cost": e["cost"],
            "prob": float(e["prob"]), "req_access": 1}


def noop_desc():
    return {"kind": NOOP, "target": (1, 0), "name": "noop", "cost": 0,
            "prob": 1.0, "req_access": 0}


_CLASS_KIND = {"ServiceScan": SRV_SCAN, "OSScan": OS_SCAN,
               "SubnetScan": SUB_SCAN, "ProcessScan": PROC_SCAN,
               "Exploit": EXPLOIT, "PrivilegeEscalation": PRIVESC,
               "NoOp": NOOP}


def describe_action(spec, action):
    """Map a subject Action object to the spec's descriptor using only its
    class name, its name and its target."""
    kind = _CLASS_KIND[type(action).__name__]
    tgt = (int(action.target[0]), int(action.target[1]))
    if kind == NOOP:
        return noop_desc()
    if kind in SCAN_KINDS:
        return scan_desc(spec, kind, tgt)
    if kind == EXPLOIT:
        return exploit_desc(spec, action.name, tgt)
    return privesc_desc(spec, action.name, tgt)


def desc_key(d):
    return (d["kind"], d["name"], d["target"])


def spec_from_canonical(c, name="replay", origin="replay"):
    hosts = {}
    for a, os_, srvs, procs, value, dvalue, fw in c["hosts"]:
        hosts[tuple(a)] = {
            "os": os_, "services": list(srvs), "processes": list(procs),
            "value": value, "discovery_value": dvalue,
            "firewall": {parse_addr(s): list(v) for s, v in fw.items()}}
    sens = {parse_addr(k): v for k, v in c["sensitive"].items()}
    for a in sens:
        hosts[a]["value"] = 0.0
    return Spec(
        name=name, origin=origin, subnets=c["subnets"],
        topology=c["topology"], os=c["os"], services=c["services"],
        processes=c["processes"],
        exploits={k: c["exploits"][k] for k in c["exploit_order"]},
        privescs={k: c["privescs"][k] for k in c["privesc_order"]},
        scan_costs=c["scan_costs"], sensitive=sens, hosts=hosts,
        firewall={parse_addr(k): list(v) for k, v in c["firewall"].items()},
        step_limit=c["step_limit"], bounds=c["bounds"])
