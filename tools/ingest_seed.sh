#!/bin/bash
# tools/ingest_seed.sh C07        - copy /tmp/wt-C07/_seed[2] into /verif/seeded/
cd "$(dirname "$0")/.." || exit 2
p=$1
for sfx in "" 2; do
  src=/tmp/wt-$p/_seed$sfx
  [ -f $src/patch.diff ] || continue
  n=$(python3 -c "
import json,re,sys
m=json.load(open('$src/meta.json'))
s=re.sub(r'[^a-z0-9]+','-',m.get('summary','x').lower())[:40].strip('-')
print(s)")
  dst=seeded/$p-${sfx:-1}-$n
  mkdir -p $dst
  cp $src/patch.diff $src/demo.py $src/meta.json $dst/
  echo "ingested $dst"
done
