#!/bin/bash
# tools/ingest_seed.sh C07 [worktree-prefix=wt] [first-index=1]
#   copies /tmp/<prefix>-C07/_seed and _seed2 into /verif/seeded/
cd "$(dirname "$0")/.." || exit 2
p=$1; pre=${2:-wt}; base=${3:-1}
i=$base
for sfx in "" 2; do
  src=/tmp/$pre-$p/_seed$sfx
  [ -f $src/patch.diff ] || { i=$((i+1)); continue; }
  n=$(python3 -c "
import json,re,sys
m=json.load(open('$src/meta.json'))
s=re.sub(r'[^a-z0-9]+','-',m.get('summary','x').lower())[:40].strip('-')
print(s)")
  dst=seeded/$p-$i-$n
  mkdir -p $dst
  cp $src/patch.diff $src/demo.py $src/meta.json $dst/
  echo "ingested $dst"
  i=$((i+1))
done
