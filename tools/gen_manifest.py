#!/usr/bin/env python3
"""Regenerate /verif/MANIFEST.json from nv/registry.py and validate it."""
import json, os, sys
ROOT = os.path.dirname(os.path.dirname(os.path.abspath(__file__)))
sys.path.insert(0, ROOT)
sys.path.insert(0, os.path.join(ROOT, ".deps"))
from nv import registry

ALL = [f"C{i:02d}" for i in range(1, 21)]
checks = []
for pid in ALL:
    if pid not in registry.PROPS:
        continue
    c = registry.PROPS[pid]
    checks.append({
        "property_id": pid,
        "quick_cmd": f"./check {pid} --tier quick",
        "thorough_cmd": f"./check {pid} --tier thorough",
        "evidence_file": f"/verif/evidence/{pid}.json",
        "replay_cmd_template": f"./check {pid} --replay {{path}}",
        "engine": c.get("engine", "nv"),
        "level_claimed": {"category": c["level"],
                          "text": c.get("level_text", c["rule"]),
                          "design_ref": c.get("design_ref", f"DESIGN.md §4 {pid}")},
        "level_note": c.get("level_note", "; ".join(c["assumptions"])),
        "technique": c.get("technique", "runtime monitoring: online oracle over observed executions of the real code"),
    })
na = [{"property_id": p, "reason": registry.NOT_APPLICABLE.get(
        p, "check not built yet in this session; work in progress (runtime monitoring applies, see DESIGN.md §4)")}
      for p in ALL if p not in registry.PROPS]
man = {
    "version": 1,
    "setup_cmd": "./setup.sh",
    "hooks": {
        "guard": "NASIM_VERIF",
        "enable": "no source hooks are needed: every monitor attaches from outside (icontract decorators, boundary recorder, sys.monitoring); checks run /venv/bin/python with PYTHONPATH=$NV_REPO (default /repo) so the current working tree is imported; NASIM_VERIF=1 is exported for workers but nothing in /repo reads it",
        "baseline_off_cmd": "python3 /verif/tools/baseline_check.py",
        "source_commits": [],
        "add_only": True,
    },
    "engines": registry.ENGINES,
    "checks": checks,
    "notes": registry.NOTES,
    "not_applicable": na,
}
path = os.path.join(ROOT, "MANIFEST.json")
json.dump(man, open(path, "w"), indent=1)
try:
    import jsonschema
    schema = json.load(open(os.path.join(ROOT, "tools", "MANIFEST.schema.json")))
    jsonschema.validate(man, schema)
    print("MANIFEST.json valid;", len(checks), "checks,", len(na), "not_applicable")
except ImportError:
    print("written (jsonschema unavailable)")
