#!/bin/bash
# tools/run_all.sh [quick|thorough] [seed]   - run every registered check
cd "$(dirname "$0")/.." || exit 2
tier=${1:-quick}; seed=${2:-0}; rc_all=0
for i in $(seq -w 1 20); do
  p=C$i
  out=$(VERIF_SEED=$seed ./check $p --tier $tier 2>&1); rc=$?
  echo "$out" | grep -E "^(C[0-9]+ |VIOLATION|INCONCLUSIVE|KNOWN-FINDING)" | cut -c1-220
  [ $rc -ne 0 ] && { echo "  -> exit $rc"; rc_all=1; }
done
exit $rc_all
