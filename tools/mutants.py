"""Deliberate single-edit breaks of the repository used to validate the
monitors (applied to scratch copies under /tmp only, never to /repo).
Each: (name, [properties whose quick check must fire], file, old, new)."""

HV = "nasim/envs/host_vector.py"
NW = "nasim/envs/network.py"
EN = "nasim/envs/environment.py"
ST = "nasim/envs/state.py"
AC = "nasim/envs/action.py"
OB = "nasim/envs/observation.py"
LD = "nasim/scenarios/loader.py"
GN = "nasim/scenarios/generator.py"
SC = "nasim/scenarios/scenario.py"
UT = "nasim/envs/utils.py"
SI = "nasim/scenarios/__init__.py"

MUTANTS = [
    # ---------------- C01
    ("c01_drop_os_test", ["C01"], HV,
     "               (action.os is None or self.is_running_os(action.os)):",
     "               True:"),
    ("c01_procscan_without_compromise", ["C02"], HV,
     "        if not (self.compromised and action.req_access <= self.access):",
     "        if not (action.req_access <= self.access + 1):"),
    ("c01_access_unconditional", ["C01", "C04"], HV,
     """                next_state.compromised = True
                if not self.access == AccessLevel.ROOT:""",
     """                next_state.compromised = True
                if True:"""),
    ("c01_privesc_ignores_process", ["C01"], HV,
     """            has_proc = (
                action.process is None
                or self.is_running_process(action.process)
            )""",
     """            has_proc = True"""),
    ("c01_scan_sets_compromised", ["C01"], HV,
     """        if action.is_os_scan():
            return next_state, ActionResult(True, 0, os=self.os)""",
     """        if action.is_os_scan():
            next_state.compromised = True
            return next_state, ActionResult(True, 0, os=self.os)"""),
    ("c01_exploit_needs_no_service", ["C01"], HV,
     "            if self.is_running_service(action.service) and \\",
     "            if True and \\"),
    # ---------------- C02
    ("c02_no_host_firewall", ["C02"], NW,
     "            if self.host_traffic_permitted(src_addr, host_addr, service):",
     "            if True:"),
    ("c02_firewall_reverse_direction", ["C02"], NW,
     "        return service in self.firewall[(src_subnet, dest_subnet)]",
     "        return service in self.firewall[(dest_subnet, src_subnet)]"),
    ("c02_skip_remote_permission", ["C02"], NW,
     "        if action.is_remote() and not has_req_permission:",
     "        if False and not has_req_permission:"),
    ("c02_all_subnets_public", ["C02", "C03"], NW,
     "        return self.topology[subnet][INTERNET] == 1",
     "        return True"),
    ("c02_subnet_scan_no_access_gate", ["C02"], NW,
     """        if not next_state.host_compromised(action.target):
            result = ActionResult(False, 0.0, connection_error=True)
            return next_state, result

        if not next_state.host_has_access(action.target, action.req_access):""",
     """        if False:"""),
    ("c02_revert_F1_public_sources", ["C02"], NW,
     "            if not state.host_compromised(src_addr):\n                continue\n            if not self.subnet_traffic_permitted(",
     "            if not state.host_compromised(src_addr) and \\\n               not self.subnet_public(src_addr[0]):\n                continue\n            if not self.subnet_traffic_permitted("),
    ("c02_revert_F2_hostfw_keys", ["C02", "C17"], LD,
     "                firewall=host_firewall,",
     "                firewall=h_cfg[u.HOST_FIREWALL],"),
    ("c02_unreach_or_to_and", ["C02"], NW,
     """        if not state.host_reachable(action.target) \\
           or not state.host_discovered(action.target):""",
     """        if not state.host_reachable(action.target) \\
           and not state.host_discovered(action.target):"""),
    ("c02_pivot_ignores_access", ["C02"], NW,
     "            if state.host_has_access(src_addr, action.req_access):\n                return True",
     "            if True:\n                return True"),
    # ---------------- C03
    ("c03_reachable_own_subnet_only", ["C03"], NW,
     "            if self.subnets_connected(comp_subnet, addr[0]):\n                state.set_host_reachable(addr)",
     "            if comp_subnet == addr[0]:\n                state.set_host_reachable(addr)"),
    ("c03_scan_discovers_everything", ["C03"], NW,
     "            if self.subnets_connected(target_subnet, h_addr[0]):\n                host = next_state.get_host(h_addr)",
     "            if True:\n                host = next_state.get_host(h_addr)"),
    ("c03_reset_discovers_all", ["C03", "C04"], NW,
     "            host.discovered = host.reachable\n",
     "            host.discovered = True\n"),
    ("c03_privesc_updates_reachable_not_exploit", ["C03"], NW,
     "        if action.is_exploit() and action_obs.success:",
     "        if action.is_privilege_escalation() and action_obs.success:"),
    # ---------------- C04
    ("c04_reset_keeps_discovered", ["C04"], NW,
     "            host.discovered = host.reachable\n",
     "            host.discovered = host.discovered or host.reachable\n"),
    ("c04_reset_forgets_steps", ["C04", "C06"], EN,
     "        super().reset(seed=seed, options=options)\n        self.steps = 0\n",
     "        super().reset(seed=seed, options=options)\n"),
    ("c04_privesc_downgrade", ["C04", "C01"], HV,
     """                value = 0.0
                if not self.access == AccessLevel.ROOT:""",
     """                value = 0.0
                if True:"""),
    ("c04_observe_writes_config", ["C04"], ST,
     "        obs = Observation(self.shape())\n        obs.from_action_result(action_result)\n",
     "        obs = Observation(self.shape())\n        obs.from_action_result(action_result)\n        if action.is_os_scan() and action_result.success:\n            self.tensor[self.get_host_idx(action.target)][-1] = 1\n"),
    # ---------------- C05
    ("c05_plus_cost", ["C05"], EN,
     "        reward = action_obs.value - action.cost",
     "        reward = action_obs.value + action.cost"),
    ("c05_pay_on_user", ["C05"], HV,
     """                    next_state.access = action.access
                    if action.access == AccessLevel.ROOT:
                        value = self.value

                result = ActionResult(
                    True,
                    value=value,
                    services=self.services,""",
     """                    next_state.access = action.access
                    if True:
                        value = self.value

                result = ActionResult(
                    True,
                    value=value,
                    services=self.services,"""),
    ("c05_pay_discovery_always", ["C05"], NW,
     """                if not host.discovered:
                    newly_discovered[h_addr] = True
                    host.discovered = True
                    discovery_reward += host.discovery_value""",
     """                discovery_reward += host.discovery_value
                if not host.discovered:
                    newly_discovered[h_addr] = True
                    host.discovered = True"""),
    ("c05_noop_costs", ["C05"], AC,
     """        super().__init__(name="noop",
                         target=(1, 0),
                         cost=0,""",
     """        super().__init__(name="noop",
                         target=(1, 0),
                         cost=1,"""),
    ("c05_privesc_pays_twice", ["C05"], HV,
     """                    next_state.access = action.access
                    if action.access == AccessLevel.ROOT:
                        value = self.value
                result = ActionResult(
                    True,
                    value=value,
                    processes=self.processes,""",
     """                    next_state.access = action.access
                if action.access == AccessLevel.ROOT:
                    value = self.value
                result = ActionResult(
                    True,
                    value=value,
                    processes=self.processes,"""),
    # ---------------- C06
    ("c06_goal_user", ["C06"], NW,
     "            if not state.host_has_access(host_addr, AccessLevel.ROOT):\n                return False\n        return True",
     "            if not state.host_has_access(host_addr, AccessLevel.USER):\n                return False\n        return True"),
    ("c06_goal_any", ["C06"], NW,
     "            if not state.host_has_access(host_addr, AccessLevel.ROOT):\n                return False\n        return True",
     "            if state.host_has_access(host_addr, AccessLevel.ROOT):\n                return True\n        return False"),
    ("c06_limit_gt", ["C06"], EN,
     "            and self.steps >= self.scenario.step_limit",
     "            and self.steps > self.scenario.step_limit"),
    ("c06_gen_counts", ["C06", "C13"], EN,
     "        done = self.goal_reached(next_state)\n",
     "        done = self.goal_reached(next_state)\n        self.steps += 1\n"),
    ("c06_goal_on_prestate", ["C06"], EN,
     "        done = self.goal_reached(next_state)\n",
     "        done = self.goal_reached(state)\n"),
    # ---------------- C07
    ("c07_lt_for_gt", ["C07"], NW,
     "        elif np.random.rand() > action.prob:",
     "        elif np.random.rand() < action.prob:"),
    ("c07_second_draw", ["C07"], NW,
     "        elif np.random.rand() > action.prob:",
     "        elif np.random.rand() > action.prob or np.random.rand() > 2:"),
    ("c07_draw_before_reachability", ["C07"], NW,
     """        if not state.host_reachable(action.target) \\
           or not state.host_discovered(action.target):""",
     """        if not action.is_noop() and np.random.rand() > action.prob:
            return next_state, ActionResult(False, 0.0, undefined_error=True)
        if not state.host_reachable(action.target) \\
           or not state.host_discovered(action.target):"""),
    ("c07_no_reexploit_exemption", ["C07"], NW,
     "        if action.is_exploit() and host_compromised:",
     "        if False and host_compromised:"),
    ("c07_chance_failure_marks_compromised", ["C07", "C01"], NW,
     "        elif np.random.rand() > action.prob:\n            return next_state, ActionResult(False, 0.0, undefined_error=True)",
     "        elif np.random.rand() > action.prob:\n            if action.is_exploit():\n                next_state.set_host_discovered(action.target)\n                next_state.get_host(action.target).compromised = True\n            return next_state, ActionResult(False, 0.0, undefined_error=True)"),
    ("c07_success_with_error_flag", ["C07"], HV,
     "            result = ActionResult(True, 0, services=self.services)",
     "            result = ActionResult(True, 0, services=self.services, undefined_error=True)"),
    ("c07_ge_for_gt", ["C07"], NW,
     "        elif np.random.rand() > action.prob:",
     "        elif np.random.rand() >= action.prob - 0.002:"),
    # ---------------- C08
    ("c08_obs_from_prestate", ["C08"], EN,
     "        obs = next_state.get_observation(\n            action, action_obs, self.fully_obs\n        )",
     "        obs = state.get_observation(\n            action, action_obs, self.fully_obs\n        )"),
    ("c08_leak_all_rows", ["C08"], ST,
     "        if action.is_noop():\n            return obs\n\n        if not action_result.success:",
     "        if action.is_noop():\n            return obs\n        if action.is_os_scan():\n            obs.from_state(self)\n            return obs\n\n        if not action_result.success:"),
    ("c08_service_scan_no_services", ["C08"], ST,
     "        elif action.is_service_scan():\n            obs_kwargs[\"services\"] = True",
     "        elif action.is_service_scan():\n            obs_kwargs[\"services\"] = False"),
    ("c08_aux_shifted", ["C08", "C09"], OB,
     "    _success_idx = 0\n", "    _success_idx = 1\n"),
    ("c08_initial_reveals_os", ["C08"], ST,
     "            host_obs = host.observe(address=True,\n                                    reachable=True,\n                                    discovered=True)",
     "            host_obs = host.observe(address=True,\n                                    reachable=True, os=True,\n                                    discovered=True)"),
    ("c08_failed_action_reveals", ["C08"], ST,
     "        if not action_result.success:\n            # action failed so no observation\n            return obs",
     "        if not action_result.success and not action.is_exploit():\n            # action failed so no observation\n            return obs"),
    ("c08_procscan_hides_access", ["C08"], ST,
     "            obs_kwargs[\"processes\"] = True\n            obs_kwargs[\"access\"] = True",
     "            obs_kwargs[\"processes\"] = True\n            obs_kwargs[\"access\"] = False"),
    # ---------------- C13
    ("c13_no_state_copy", ["C13"], NW,
     "        next_state = state.copy()\n\n        if action.is_noop():",
     "        next_state = state\n\n        if action.is_noop():"),
    ("c13_hostvector_no_copy", ["C13"], HV,
     "        next_state = self.copy()\n        if action.is_service_scan():",
     "        next_state = self\n        if action.is_service_scan():"),
    ("c13_gen_assigns_last_obs", ["C13"], EN,
     "        done = self.goal_reached(next_state)\n",
     "        done = self.goal_reached(next_state)\n        self.last_obs = obs\n"),
    ("c13_step_own_transition", ["C13"], EN,
     "        self.current_state = next_state\n        self.last_obs = obs\n",
     "        self.current_state = next_state.copy() if reward < 0 else self.current_state\n        self.last_obs = obs\n"),
]
