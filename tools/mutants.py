"""Deliberate single-edit breaks of the repository used to validate the
monitors (applied to scratch copies under /tmp only, never to /repo).
Each: (name, [properties whose quick check must fire], file, old, new)."""

HV = "nasim/envs/host_vector.py"
NW = "nasim/envs/network.py"
EN = "nasim/envs/environment.py"
ST = "nasim/envs/state.py"
AC = "nasim/envs/action.py"
OB = "nasim/envs/observation.py"
LD = "nasim/scenarios/loader.py"
GN = "nasim/scenarios/generator.py"
SC = "nasim/scenarios/scenario.py"
UT = "nasim/envs/utils.py"
SI = "nasim/scenarios/__init__.py"

MUTANTS = [
    # ---------------- C01
    ("c01_drop_os_test", ["C01"], HV,
     "               (action.os is None or self.is_running_os(action.os)):",
     "               True:"),
    ("c01_procscan_without_compromise", ["C02"], HV,
     "        if not (self.compromised and action.req_access <= self.access):",
     "        if not (action.req_access <= self.access + 1):"),
    ("c01_access_unconditional", ["C01", "C04"], HV,
     """                next_state.compromised = True
                if not self.access == AccessLevel.ROOT:""",
     """                next_state.compromised = True
                if True:"""),
    ("c01_privesc_ignores_process", ["C01"], HV,
     """            has_proc = (
                action.process is None
                or self.is_running_process(action.process)
            )""",
     """            has_proc = True"""),
    ("c01_scan_sets_compromised", ["C01"], HV,
     """        if action.is_os_scan():
            return next_state, ActionResult(True, 0, os=self.os)""",
     """        if action.is_os_scan():
            next_state.compromised = True
            return next_state, ActionResult(True, 0, os=self.os)"""),
    ("c01_exploit_needs_no_service", ["C01"], HV,
     "            if self.is_running_service(action.service) and \\",
     "            if True and \\"),
    # ---------------- C02
    ("c02_no_host_firewall", ["C02"], NW,
     "            if self.host_traffic_permitted(src_addr, host_addr, service):",
     "            if True:"),
    ("c02_firewall_reverse_direction", ["C02"], NW,
     "        return service in self.firewall[(src_subnet, dest_subnet)]",
     "        return service in self.firewall[(dest_subnet, src_subnet)]"),
    ("c02_skip_remote_permission", ["C02"], NW,
     "        if action.is_remote() and not has_req_permission:",
     "        if False and not has_req_permission:"),
    ("c02_all_subnets_public", ["C02", "C03"], NW,
     "        return self.topology[subnet][INTERNET] == 1",
     "        return True"),
    ("c02_subnet_scan_no_access_gate", ["C02"], NW,
     """        if not next_state.host_compromised(action.target):
            result = ActionResult(False, 0.0, connection_error=True)
            return next_state, result

        if not next_state.host_has_access(action.target, action.req_access):""",
     """        if False:"""),
    ("c02_revert_F1_public_sources", ["C02"], NW,
     "            if not state.host_compromised(src_addr):\n                continue\n            if not self.subnet_traffic_permitted(",
     "            if not state.host_compromised(src_addr) and \\\n               not self.subnet_public(src_addr[0]):\n                continue\n            if not self.subnet_traffic_permitted("),
    ("c02_revert_F2_hostfw_keys", ["C02", "C17"], LD,
     "                firewall=host_firewall,",
     "                firewall=h_cfg[u.HOST_FIREWALL],"),
    ("c02_unreach_or_to_and", ["C02"], NW,
     """        if not state.host_reachable(action.target) \\
           or not state.host_discovered(action.target):""",
     """        if not state.host_reachable(action.target) \\
           and not state.host_discovered(action.target):"""),
    ("c02_pivot_ignores_access", ["C02"], NW,
     "            if state.host_has_access(src_addr, action.req_access):\n                return True",
     "            if True:\n                return True"),
    # ---------------- C03
    ("c03_reachable_own_subnet_only", ["C03"], NW,
     "            if self.subnets_connected(comp_subnet, addr[0]):\n                state.set_host_reachable(addr)",
     "            if comp_subnet == addr[0]:\n                state.set_host_reachable(addr)"),
    ("c03_scan_discovers_everything", ["C03"], NW,
     "            if self.subnets_connected(target_subnet, h_addr[0]):\n                host = next_state.get_host(h_addr)",
     "            if True:\n                host = next_state.get_host(h_addr)"),
    ("c03_reset_discovers_all", ["C03", "C04"], NW,
     "            host.discovered = host.reachable\n",
     "            host.discovered = True\n"),
    ("c03_privesc_updates_reachable_not_exploit", ["C03"], NW,
     "        if action.is_exploit() and action_obs.success:",
     "        if action.is_privilege_escalation() and action_obs.success:"),
    # ---------------- C04
    ("c04_reset_keeps_discovered", ["C04"], NW,
     "            host.discovered = host.reachable\n",
     "            host.discovered = host.discovered or host.reachable\n"),
    ("c04_reset_forgets_steps", ["C04", "C06"], EN,
     "        super().reset(seed=seed, options=options)\n        self.steps = 0\n",
     "        super().reset(seed=seed, options=options)\n"),
    ("c04_privesc_downgrade", ["C04", "C01"], HV,
     """                value = 0.0
                if not self.access == AccessLevel.ROOT:""",
     """                value = 0.0
                if True:"""),
    ("c04_observe_writes_config", ["C04"], ST,
     "        obs = Observation(self.shape())\n        obs.from_action_result(action_result)\n",
     "        obs = Observation(self.shape())\n        obs.from_action_result(action_result)\n        if action.is_os_scan() and action_result.success:\n            self.tensor[self.get_host_idx(action.target)][-1] = 1\n"),
    # ---------------- C05
    ("c05_plus_cost", ["C05"], EN,
     "        reward = action_obs.value - action.cost",
     "        reward = action_obs.value + action.cost"),
    ("c05_pay_on_user", ["C05"], HV,
     """                    next_state.access = action.access
                    if action.access == AccessLevel.ROOT:
                        value = self.value

                result = ActionResult(
                    True,
                    value=value,
                    services=self.services,""",
     """                    next_state.access = action.access
                    if True:
                        value = self.value

                result = ActionResult(
                    True,
                    value=value,
                    services=self.services,"""),
    ("c05_pay_discovery_always", ["C05"], NW,
     """                if not host.discovered:
                    newly_discovered[h_addr] = True
                    host.discovered = True
                    discovery_reward += host.discovery_value""",
     """                discovery_reward += host.discovery_value
                if not host.discovered:
                    newly_discovered[h_addr] = True
                    host.discovered = True"""),
    ("c05_noop_costs", ["C05"], AC,
     """        super().__init__(name="noop",
                         target=(1, 0),
                         cost=0,""",
     """        super().__init__(name="noop",
                         target=(1, 0),
                         cost=1,"""),
    ("c05_privesc_pays_twice", ["C05"], HV,
     """                    next_state.access = action.access
                    if action.access == AccessLevel.ROOT:
                        value = self.value
                result = ActionResult(
                    True,
                    value=value,
                    processes=self.processes,""",
     """                    next_state.access = action.access
                if action.access == AccessLevel.ROOT:
                    value = self.value
                result = ActionResult(
                    True,
                    value=value,
                    processes=self.processes,"""),
    # ---------------- C06
    ("c06_goal_user", ["C06"], NW,
     "            if not state.host_has_access(host_addr, AccessLevel.ROOT):\n                return False\n        return True",
     "            if not state.host_has_access(host_addr, AccessLevel.USER):\n                return False\n        return True"),
    ("c06_goal_any", ["C06"], NW,
     "            if not state.host_has_access(host_addr, AccessLevel.ROOT):\n                return False\n        return True",
     "            if state.host_has_access(host_addr, AccessLevel.ROOT):\n                return True\n        return False"),
    ("c06_limit_gt", ["C06"], EN,
     "            and self.steps >= self.scenario.step_limit",
     "            and self.steps > self.scenario.step_limit"),
    ("c06_gen_counts", ["C06", "C13"], EN,
     "        done = self.goal_reached(next_state)\n",
     "        done = self.goal_reached(next_state)\n        self.steps += 1\n"),
    ("c06_goal_on_prestate", ["C06"], EN,
     "        done = self.goal_reached(next_state)\n",
     "        done = self.goal_reached(state)\n"),
    # ---------------- C07
    ("c07_lt_for_gt", ["C07"], NW,
     "        elif np.random.rand() > action.prob:",
     "        elif np.random.rand() < action.prob:"),
    ("c07_second_draw", ["C07"], NW,
     "        elif np.random.rand() > action.prob:",
     "        elif np.random.rand() > action.prob or np.random.rand() > 2:"),
    ("c07_draw_before_reachability", ["C07"], NW,
     """        if not state.host_reachable(action.target) \\
           or not state.host_discovered(action.target):""",
     """        if not action.is_noop() and np.random.rand() > action.prob:
            return next_state, ActionResult(False, 0.0, undefined_error=True)
        if not state.host_reachable(action.target) \\
           or not state.host_discovered(action.target):"""),
    ("c07_no_reexploit_exemption", ["C07"], NW,
     "        if action.is_exploit() and host_compromised:",
     "        if False and host_compromised:"),
    ("c07_chance_failure_marks_compromised", ["C07", "C01"], NW,
     "        elif np.random.rand() > action.prob:\n            return next_state, ActionResult(False, 0.0, undefined_error=True)",
     "        elif np.random.rand() > action.prob:\n            if action.is_exploit():\n                next_state.set_host_discovered(action.target)\n                next_state.get_host(action.target).compromised = True\n            return next_state, ActionResult(False, 0.0, undefined_error=True)"),
    ("c07_success_with_error_flag", ["C07"], HV,
     "            result = ActionResult(True, 0, services=self.services)",
     "            result = ActionResult(True, 0, services=self.services, undefined_error=True)"),
    ("c07_ge_for_gt", ["C07"], NW,
     "        elif np.random.rand() > action.prob:",
     "        elif np.random.rand() >= action.prob - 0.002:"),
    # ---------------- C08
    ("c08_obs_from_prestate", ["C08"], EN,
     "        obs = next_state.get_observation(\n            action, action_obs, self.fully_obs\n        )",
     "        obs = state.get_observation(\n            action, action_obs, self.fully_obs\n        )"),
    ("c08_leak_all_rows", ["C08"], ST,
     "        if action.is_noop():\n            return obs\n\n        if not action_result.success:",
     "        if action.is_noop():\n            return obs\n        if action.is_os_scan():\n            obs.from_state(self)\n            return obs\n\n        if not action_result.success:"),
    ("c08_service_scan_no_services", ["C08"], ST,
     "        elif action.is_service_scan():\n            obs_kwargs[\"services\"] = True",
     "        elif action.is_service_scan():\n            obs_kwargs[\"services\"] = False"),
    ("c08_aux_shifted", ["C08", "C09"], OB,
     "    _success_idx = 0\n", "    _success_idx = 1\n"),
    ("c08_initial_reveals_os", ["C08"], ST,
     "            host_obs = host.observe(address=True,\n                                    reachable=True,\n                                    discovered=True)",
     "            host_obs = host.observe(address=True,\n                                    reachable=True, os=True,\n                                    discovered=True)"),
    ("c08_failed_action_reveals", ["C08"], ST,
     "        if not action_result.success:\n            # action failed so no observation\n            return obs",
     "        if not action_result.success and not action.is_exploit():\n            # action failed so no observation\n            return obs"),
    ("c08_procscan_hides_access", ["C08"], ST,
     "            obs_kwargs[\"processes\"] = True\n            obs_kwargs[\"access\"] = True",
     "            obs_kwargs[\"processes\"] = True\n            obs_kwargs[\"access\"] = False"),
    # ---------------- C13
    ("c13_no_state_copy", ["C13"], NW,
     "        next_state = state.copy()\n\n        if action.is_noop():",
     "        next_state = state\n\n        if action.is_noop():"),
    ("c13_hostvector_no_copy", ["C13"], HV,
     "        next_state = self.copy()\n        if action.is_service_scan():",
     "        next_state = self\n        if action.is_service_scan():"),
    ("c13_gen_assigns_last_obs", ["C13"], EN,
     "        done = self.goal_reached(next_state)\n",
     "        done = self.goal_reached(next_state)\n        self.last_obs = obs\n"),
    ("c13_step_own_transition", ["C13"], EN,
     "        self.current_state = next_state\n        self.last_obs = obs\n",
     "        self.current_state = next_state.copy() if reward < 0 else self.current_state\n        self.last_obs = obs\n"),
    # ---------------- C09
    ("c09_service_start_off_by_one", ["C09"], HV,
     "        cls._process_start_idx = cls._service_start_idx + cls.num_services\n        cls.state_size = cls._process_start_idx + cls.num_processes",
     "        cls._process_start_idx = cls._service_start_idx + cls.num_services + 1\n        cls.state_size = cls._process_start_idx + cls.num_processes"),
    ("c09_value_discovery_swapped", ["C09"], HV,
     "        cls._value_idx = cls._discovered_idx + 1\n        cls._discovery_value_idx = cls._value_idx + 1",
     "        cls._discovery_value_idx = cls._discovered_idx + 1\n        cls._value_idx = cls._discovery_value_idx + 1"),
    ("c09_flatten_fortran", ["C09"], OB,
     "        return self.tensor.flatten()", "        return self.tensor.flatten(order='F')"),
    ("c09_services_sorted_order", ["C09"], HV,
     "        for srv_num, (srv_key, srv_val) in enumerate(host.services.items()):\n            vector[cls._get_service_idx(srv_num)] = int(srv_val)",
     "        for srv_num, (srv_key, srv_val) in enumerate(sorted(host.services.items())):\n            vector[cls._get_service_idx(srv_num)] = int(srv_val)"),
    ("c09_readable_access_as_bool", ["C09"], HV,
     "        readable_dict[\"Access\"] = hvec.access", "        readable_dict[\"Access\"] = float(bool(hvec.access))"),
    ("c09_obs_from_numpy_wrong_reshape", ["C09"], OB,
     "            o_array = o_array.reshape(state_shape[0]+1, state_shape[1])",
     "            o_array = o_array.reshape(state_shape[1], state_shape[0]+1).T"),
    ("c09_bounds_ignored_in_layout", ["C09", "C10"], HV,
     "        cls._host_address_idx = cls.address_space_bounds[0]",
     "        cls._host_address_idx = min(cls.address_space_bounds[0], 6)"),
    # ---------------- C10
    ("c10_revert_F5", ["C10"], AC,
     "        assert isinstance(action_idx, (int, np.integer)) or (\n            isinstance(action_idx, np.ndarray)\n            and action_idx.shape == ()\n            and np.issubdtype(action_idx.dtype, np.integer)\n        ), \\",
     "        assert isinstance(action_idx, int), \\"),
    ("c10_float64_tensor", [], ST,
     "            (len(network.hosts), h0_vector.state_size),\n            dtype=np.float32\n        )\n        for host_addr, host in network.hosts.items():\n            host_num = network.host_num_map[host_addr]\n            HostVector.vectorize(",
     "            (len(network.hosts), h0_vector.state_size),\n            dtype=np.float64\n        )\n        for host_addr, host in network.hosts.items():\n            host_num = network.host_num_map[host_addr]\n            HostVector.vectorize("),
    ("c10_obs_float64", ["C10"], OB,
     "        self.tensor = np.zeros(self.obs_shape, dtype=np.float32)",
     "        self.tensor = np.zeros(self.obs_shape, dtype=np.float64)"),
    ("c10_box_low_zero", ["C10"], OB,
     "        obs_low = min(\n            0,\n            value_bounds[0],\n            discovery_bounds[0]\n        )",
     "        obs_low = 0"),
    ("c10_box_high_ignores_discovery", ["C10"], OB,
     "            value_bounds[1],\n            discovery_bounds[1],\n            AccessLevel.ROOT,",
     "            value_bounds[1],\n            AccessLevel.ROOT,"),
    ("c10_state_dims_ignore_bounds", ["C10"], SC,
     "            self.address_space_bounds[0]\n            + self.address_space_bounds[1]\n            + host_aux_features",
     "            len(self.subnets)\n            + max(self.subnets)\n            + host_aux_features"),
    ("c10_reward_as_array", ["C10"], EN,
     "        reward = action_obs.value - action.cost",
     "        reward = np.array([action_obs.value - action.cost])"),
    ("c10_param_rejects_tuple", ["C10"], AC,
     "        assert isinstance(action_vec, (list, tuple, np.ndarray)), \\",
     "        assert isinstance(action_vec, (list, np.ndarray)), \\"),
    # ---------------- C11
    ("c11_drop_process_scan", ["C11"], AC,
     "        action_list.append(\n            ProcessScan(address, scenario.process_scan_cost)\n        )\n",
     ""),
    ("c11_duplicate_scan", ["C11"], AC,
     "        action_list.append(\n            OSScan(address, scenario.os_scan_cost)\n        )\n",
     "        action_list.append(\n            OSScan(address, scenario.os_scan_cost)\n        )\n        if address == (1, 0):\n            action_list.append(\n                OSScan(address, scenario.os_scan_cost)\n            )\n"),
    ("c11_subnet_no_plus_one", ["C11"], AC,
     "        subnet = action_vec[1]+1", "        subnet = max(action_vec[1], 1)"),
    ("c11_scan_cost_wrong_field", ["C11"], AC,
     "        elif a_class == OSScan:\n            cost = self.scenario.os_scan_cost",
     "        elif a_class == OSScan:\n            cost = self.scenario.service_scan_cost"),
    ("c11_flat_scan_cost_wrong_field", ["C11", "C05"], AC,
     "            SubnetScan(address, scenario.subnet_scan_cost)",
     "            SubnetScan(address, scenario.process_scan_cost)"),
    ("c11_mask_from_reachable", ["C11"], EN,
     "            if self.current_state.host_discovered(action.target):",
     "            if self.current_state.host_reachable(action.target):"),
    ("c11_revert_F6", ["C11"], EN,
     "            if self.current_state.host_discovered(action.target):",
     "            if self.network.host_discovered(action.target):"),
    ("c11_exploit_map_last_wins", ["C11"], SC,
     "                os = e_def[u.EXPLOIT_OS]\n                if os not in srv_map:\n                    srv_map[os] = {",
     "                os = e_def[u.EXPLOIT_OS]\n                if True:\n                    srv_map[os] = {"),
    ("c11_action_space_size_forgets_privescs", ["C11"], SC,
     "        actions_per_host = num_exploits + num_privescs + num_scans",
     "        actions_per_host = num_exploits + num_scans + min(num_privescs, 1)"),
    ("c11_host_wrap_off", ["C11"], AC,
     "        host = action_vec[2] % self.scenario.subnets[subnet]",
     "        host = min(action_vec[2], self.scenario.subnets[subnet] - 1)"),
    # ---------------- C12
    ("c12_fully_obs_leaks_into_dynamics", ["C12"], EN,
     "        reward = action_obs.value - action.cost\n",
     "        reward = action_obs.value - action.cost\n        if self.fully_obs and action.is_os_scan():\n            reward -= 1\n"),
    ("c12_param_scan_cost_differs", ["C12", "C11"], AC,
     "        return {\"cost\": cost}", "        return {\"cost\": cost + 1}"),
    ("c12_extra_draw_when_flat_obs", ["C12"], EN,
     "            obs = obs.numpy()\n\n        self.steps += 1",
     "            obs = obs.numpy()\n            np.random.rand()\n\n        self.steps += 1"),
    ("c12_step_limit_only_flat_actions", ["C12", "C06"], EN,
     "            self.scenario.step_limit is not None\n",
     "            self.scenario.step_limit is not None and self.flat_actions\n"),
    ("c12_partial_obs_blocks_exploit_value", ["C12"], EN,
     "        done = self.goal_reached(next_state)\n",
     "        done = self.goal_reached(next_state) and (self.fully_obs or not self.flat_obs or self.steps != 13)\n"),
    ("c12_param_exploit_prob_rounded", ["C12", "C11"], AC,
     "        return e_map[service][os]", "        return dict(e_map[service][os], prob=round(e_map[service][os]['prob'], 1))"),
    # ---------------- C15
    ("c15_subnets_off_by_one", ["C15"], GN,
     "        num_user_hosts = num_hosts - dmz_hosts - sensitive_hosts\n",
     "        num_user_hosts = num_hosts - dmz_hosts - sensitive_hosts + (num_hosts % 7 == 0)\n"),
    ("c15_one_directional_edge", ["C15"], GN,
     "            if child_left < num_subnets:\n                topology[row][child_left] = 1",
     "            if child_left < num_subnets and child_left != 8:\n                topology[row][child_left] = 1"),
    ("c15_firewall_from_all_services", ["C16"], GN,
     "                dest_avail = subnet_services[dest].copy()\n",
     "                dest_avail = set(self.services)\n"),
    ("c15_user_user_restricted", ["C15"], GN,
     "                    allowed = set(self.services)\n                    firewall[(src, dest)] = allowed",
     "                    allowed = set(self.services[:max(1, len(self.services) - 1)])\n                    firewall[(src, dest)] = allowed"),
    ("c15_sensitive_host_second", ["C15"], GN,
     "        sensitive_hosts[(SENSITIVE, 0)] = r_sensitive",
     "        sensitive_hosts[(SENSITIVE, self.subnets[SENSITIVE] - 1)] = r_sensitive"),
    ("c15_num_exploits_capped", ["C15"], GN,
     "        while exploits_added < num_exploits:",
     "        while exploits_added < min(num_exploits, 24):"),
    ("c15_revert_F8", ["C15"], GN,
     "                os_choices[privescs_added] = np.random.choice(possible_os)",
     "                pass"),
    ("c15_restrictiveness_plus_one", ["C15"], GN,
     "                while len(allowed) < restrictiveness:",
     "                while len(allowed) < restrictiveness + 1 and dest_avail:"),
    ("c15_user_value_swapped", ["C15"], GN,
     "            sensitive_hosts[(len(self.subnets)-1, self.subnets[-1]-1)] = r_user",
     "            sensitive_hosts[(len(self.subnets)-1, self.subnets[-1]-1)] = r_sensitive"),
    ("c15_list_probs_reversed", ["C15"], GN,
     "                    u.EXPLOIT_PROB: exploit_probs[exploits_added],",
     "                    u.EXPLOIT_PROB: exploit_probs[num_exploits - 1 - exploits_added],"),
    ("c15_random_goal_hits_sensitive_subnet", ["C15"], GN,
     "            subnet_id = np.random.randint(USER, len(self.subnets))",
     "            subnet_id = np.random.randint(SENSITIVE, len(self.subnets))"),
    ("c15_uniform_allows_no_process", ["C15"], GN,
     "        proc_configs = self._permutations(len(self.processes))[:-1]",
     "        proc_configs = self._permutations(len(self.processes))"),
    # ---------------- C16
    ("c16_skip_ensure_vulnerability", ["C16"], GN,
     "        self._ensure_host_vulnerability()\n", ""),
    ("c16_firewall_allows_random_service", ["C16"], GN,
     "                dest_allowed = np.random.choice(sorted(dest_avail))\n                # for dest subnet",
     "                dest_allowed = np.random.choice(self.services)\n                dest_avail.add(dest_allowed)\n                # for dest subnet"),
    ("c16_no_privesc_per_os_guarantee", ["C15"], GN,
     "                if None in os_choices \\\n                   or all([os in os_choices for os in self.os]):\n                    break",
     "                break"),
    ("c16_sensitive_needs_only_user", ["C16"], GN,
     "                if not self._host_is_vulnerable(host, u.ROOT_ACCESS):\n                    self._update_host_to_vulnerable(host, u.ROOT_ACCESS)",
     "                if not self._host_is_vulnerable(host):\n                    self._update_host_to_vulnerable(host)"),
    ("c16_vulnerable_check_ignores_os", ["C16"], GN,
     "        return e_os is None or host.os[e_os]\n\n    def _host_is_vulnerable_to_privesc",
     "        return True\n\n    def _host_is_vulnerable_to_privesc"),
    # ---------------- C14
    ("c14_revert_F7", ["C14"], GN,
     "                dest_allowed = np.random.choice(sorted(dest_avail))\n                # for dest subnet",
     "                dest_allowed = np.random.choice(list(dest_avail))\n                # for dest subnet"),
    ("c14_python_random_in_generator", ["C14"], GN,
     "            host_num = np.random.randint(size)\n",
     "            import random as _r\n            host_num = _r.randrange(size)\n"),
    ("c14_set_iteration_of_services", ["C14"], GN,
     "        e_def = np.random.choice(valid_e)\n        host.services[e_def[u.EXPLOIT_SERVICE]] = True",
     "        _names = list({e[u.EXPLOIT_SERVICE] for e in valid_e})\n        _n = _names[np.random.randint(len(_names))]\n        e_def = [e for e in valid_e if e[u.EXPLOIT_SERVICE] == _n][0]\n        host.services[e_def[u.EXPLOIT_SERVICE]] = True"),
    ("c14_time_seed", ["C14"], GN,
     "        if seed is not None:\n            np.random.seed(seed)",
     "        if seed is not None:\n            import time\n            np.random.seed((seed + time.time_ns()) % (2 ** 31) if seed % 5 == 3 else seed)"),
    ("c14_dynamics_private_rng", ["C14"], NW,
     "        elif np.random.rand() > action.prob:",
     "        elif np.random.default_rng().random() > action.prob:"),
    ("c14_benchmark_seed_reused", ["C14"], SI,
     "        params['seed'] = seed\n",
     "        params['seed'] = seed if params.get('seed') is None else params['seed']\n"),
    ("c14_hash_based_tiebreak_in_dynamics", [], NW,
     "        for src_addr in self.address_space:\n            if not state.host_compromised(src_addr):\n                continue\n            if action.is_scan() and \\",
     "        for src_addr in sorted(self.address_space, key=lambda a: hash(str(a))):\n            if not state.host_compromised(src_addr):\n                continue\n            if action.is_scan() and \\"),
    # ---------------- C17
    ("c17_os_scan_cost_from_service", ["C17"], LD,
     "        self.os_scan_cost = self.yaml_dict[u.OS_SCAN_COST]",
     "        self.os_scan_cost = self.yaml_dict[u.SERVICE_SCAN_COST]"),
    ("c17_root_mapped_to_user", ["C17"], LD,
     '    "root": u.ROOT_ACCESS\n}', '    "root": u.USER_ACCESS\n}'),
    ("c17_host_value_ignored", ["C17"], LD,
     "        return float(host_cfg.get(u.HOST_VALUE, u.DEFAULT_HOST_VALUE))",
     "        return float(u.DEFAULT_HOST_VALUE)"),
    ("c17_firewall_keys_swapped", ["C17", "C02"], LD,
     "            self.firewall[eval(connect)] = v",
     "            self.firewall[eval(connect)[::-1]] = v"),
    ("c17_revert_F4_prob_one", ["C17"], LD,
     "        assert 0 <= e[u.EXPLOIT_PROB] <= 1, \\",
     "        assert 0 <= e[u.EXPLOIT_PROB] < 1, \\"),
    ("c17_step_limit_default", ["C17"], LD,
     "            step_limit = None\n", "            step_limit = 1000\n"),
    ("c17_process_list_shared", ["C17"], LD,
     "            processes_cfg[process] = process in host_cfg[u.HOST_PROCESSES]",
     "            processes_cfg[process] = process in host_cfg[u.HOST_PROCESSES] or not host_cfg[u.HOST_PROCESSES]"),
    ("c17_sensitive_value_int_cast", ["C17"], LD,
     "            return float(self.sensitive_hosts[address])",
     "            return float(int(self.sensitive_hosts[address]))"),
    ("c17_privesc_os_none_lost", ["C17"], LD,
     '        if str(pe[u.PRIVESC_OS]).lower() == "none":\n            pe[u.PRIVESC_OS] = None',
     '        if str(pe[u.PRIVESC_OS]) == "none":\n            pe[u.PRIVESC_OS] = None'),
    ("c17_host_firewall_first_rule_only", ["C17"], LD,
     "                eval(src): srvs for src, srvs in h_cfg[u.HOST_FIREWALL].items()\n",
     "                eval(src): srvs[:1] for src, srvs in h_cfg[u.HOST_FIREWALL].items()\n"),
    # ---------------- C18
    ("c18_revert_F3", ["C18"], LD,
     "            if eval(addr) in self.sensitive_hosts:\n                sh_value = self.sensitive_hosts[eval(addr)]",
     "            if addr in self.sensitive_hosts:\n                sh_value = self.sensitive_hosts[addr]"),
    # ---------------- C19
    ("c19_class_level_initial_tensor_cache", ["C19"], ST,
     "    def generate_initial_state(cls, network):\n        cls.reset()\n        state = cls.tensorize(network)\n        return network.reset(state)",
     "    def generate_initial_state(cls, network):\n        cls.reset()\n        if getattr(cls, '_cache', None) is not None and cls._cache.tensor.shape == cls.tensorize(network).tensor.shape:\n            return network.reset(cls._cache)\n        state = cls.tensorize(network)\n        cls._cache = state\n        return network.reset(state)"),
    ("c19_network_hosts_class_attribute", ["C19"], NW,
     "    def __init__(self, scenario):\n        self.hosts = scenario.hosts",
     "    def __init__(self, scenario):\n        Network.hosts = scenario.hosts"),
    ("c19_module_level_current_network", ["C19"], NW,
     [("    def host_traffic_permitted(self, src_addr, dest_addr, service):\n        dest_host = self.hosts[dest_addr]",
       "    def host_traffic_permitted(self, src_addr, dest_addr, service):\n        dest_host = _LAST[0].hosts.get(dest_addr, self.hosts[dest_addr])"),
      ("    def __init__(self, scenario):\n        self.hosts = scenario.hosts",
       "    def __init__(self, scenario):\n        _LAST[0] = self\n        self.hosts = scenario.hosts"),
      ("INTERNET = 0\n", "INTERNET = 0\n_LAST = [None]\n")], None),
    ("c19_shared_step_counter", ["C19", "C06"], EN,
     "        self.steps += 1\n",
     "        NASimEnv._steps_total = getattr(NASimEnv, '_steps_total', 0) + 1\n        self.steps = NASimEnv._steps_total\n"),
    ("c19_firewall_shared_between_instances", ["C19"], NW,
     "        self.firewall = scenario.firewall\n",
     "        Network.firewall = scenario.firewall\n"),
    # ---------------- C20
    ("c20_revert_F9_path_sum", ["C20"], UT,
     "    return int(min(tree[-1].min(), max_value))",
     "    shortest = max_value\n    for pm in permutations(subnets_to_visit):\n        pm_sum = 0\n        for i in range(len(pm) - 1):\n            pm_sum += distance[pm[i]][pm[i+1]]\n        shortest = min(shortest, pm_sum)\n    return shortest"),
    ("c20_bound_without_discovery_total", ["C20"], EN,
     "        max_reward += self.network.get_total_discovery_value()\n", ""),
    ("c20_max_instead_of_sum_of_sensitive", ["C20"], NW,
     "        for host_value in self.sensitive_hosts.values():\n            total += host_value\n        return total",
     "        for host_value in self.sensitive_hosts.values():\n            total = max(total, host_value)\n        return total"),
    ("c20_hops_plus_one", ["C20"], EN,
     "        max_reward -= self.network.get_minimal_hops()",
     "        max_reward -= self.network.get_minimal_hops() + 1"),
    ("c20_steiner_merge_skipped", ["C20"], UT,
     "        tree[visit_set] = (tree[visit_set][:, None] + dist).min(axis=0)",
     "        if bin(visit_set).count('1') < 3:\n            tree[visit_set] = (tree[visit_set][:, None] + dist).min(axis=0)"),
]


REDUNDANT_LOADER_ASSERTS = {134, 140, 162, 179, 195, 236, 243, 294, 298, 299,
                            337, 340, 341, 417, 422, 451}


def _loader_assert_mutants():
    """One mutant per `assert` statement of the loader (replaced by pass)."""
    import ast
    src = open("/repo/" + LD).read()
    lines = src.split("\n")
    out = []
    for node in ast.walk(ast.parse(src)):
        if isinstance(node, ast.Assert):
            a, b = node.lineno - 1, node.end_lineno
            old = "\n".join(lines[a:b])
            if src.count(old) != 1:
                continue
            indent = old[:len(old) - len(old.lstrip())]
            # asserts whose removal still ends in an exception for every
            # document that breaks their rule (KeyError / TypeError / a later
            # assert): equivalent with respect to C18 ("raises an error")
            redundant = node.lineno in REDUNDANT_LOADER_ASSERTS
            out.append((f"c18_drop_assert_L{node.lineno}",
                        [] if redundant else ["C18"], LD, old,
                        indent + "pass"))
    return out


MUTANTS += _loader_assert_mutants()
