#!/usr/bin/env python3
"""Markdown table of the seeded changes (seeded/*/meta.json + result.json +
notes/seed-history.json) for DESIGN.md."""
import json, os, re
ROOT = os.path.dirname(os.path.dirname(os.path.abspath(__file__)))
hist = json.load(open(os.path.join(ROOT, "notes", "seed-history.json")))["missed_at_first"]
rows = []
for d in sorted(os.listdir(os.path.join(ROOT, "seeded")),
                key=lambda x: (x.split("-")[0], int(x.split("-")[1]))):
    p = os.path.join(ROOT, "seeded", d)
    m = json.load(open(os.path.join(p, "meta.json")))
    r = json.load(open(os.path.join(p, "result.json")))
    sid = "-".join(d.split("-")[:2])
    own = r["checks"][m["property"]]
    clause = ""
    if own["mechanism"]:
        mm = re.search(r"clause=(\S+)", own["mechanism"][0])
        clause = mm.group(1) if mm else ""
    summ = re.sub(r"\s+", " ", m["summary"]).strip()
    summ = summ[:150] + ("…" if len(summ) > 150 else "")
    first = "**missed** → " + hist[sid] if sid in hist else "caught"
    rows.append(f"| {sid} | {summ} | {m['property']} `{clause}` | {first} |")
print("| Seed | Change (author's summary) | Caught by (clause) | First run |")
print("|---|---|---|---|")
print("\n".join(rows))
