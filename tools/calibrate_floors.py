#!/usr/bin/env python3
"""Run every quick check for several seeds and report, per coverage floor,
the smallest value observed and the margin (observed_min / need).
  tools/calibrate_floors.py [--seeds 0,1,2,3] [--props C01,C02] [--tier quick]
"""
import argparse, json, os, subprocess, sys
ROOT = os.path.dirname(os.path.dirname(os.path.abspath(__file__)))
ap = argparse.ArgumentParser()
ap.add_argument("--seeds", default="0,1,2,3,7,42")
ap.add_argument("--props", default=",".join(f"C{i:02d}" for i in range(1, 21)))
ap.add_argument("--tier", default="quick")
a = ap.parse_args()
obs = {}
for p in a.props.split(","):
    for s in a.seeds.split(","):
        r = subprocess.run([os.path.join(ROOT, "check"), p, "--tier", a.tier],
                           env=dict(os.environ, VERIF_SEED=s), cwd=ROOT,
                           capture_output=True, text=True)
        ev = json.load(open(os.path.join(ROOT, "evidence", f"{p}.json")))
        for k, v in ev["coverage"]["coverage_floors"].items():
            o = obs.setdefault((p, k), {"need": v["need"], "have": []})
            o["have"].append(v["have"])
        if r.returncode != 0:
            print(f"!! {p} seed {s} exit {r.returncode}: "
                  f"{r.stdout.strip().splitlines()[-1][:160]}")
    for (pp, k), o in obs.items():
        if pp != p:
            continue
        lo = min(o["have"])
        flag = "" if lo >= 3 * o["need"] else "   <-- margin < 3x"
        print(f"{p} {k:50s} need={o['need']:<8} min={lo:<9} max={max(o['have']):<9}{flag}",
              flush=True)
json.dump({f"{p}|{k}": o for (p, k), o in obs.items()},
          open(os.path.join(ROOT, "notes", f"floors-{a.tier}.json"), "w"), indent=1)
