#!/usr/bin/env python3
"""Run every quick check for several seeds and report, per coverage floor,
the smallest value observed and the margin (observed_min / need).
  tools/calibrate_floors.py [--seeds 0,1,2,3] [--props C01,C02] [--tier quick]
"""
import argparse, json, os, subprocess, sys
ROOT = os.path.dirname(os.path.dirname(os.path.abspath(__file__)))
ap = argparse.ArgumentParser()
ap.add_argument("--seeds", default="0,1,2,3,7,42")
ap.add_argument("--props", default=",".join(f"C{i:02d}" for i in range(1, 21)))
ap.add_argument("--tier", default="quick")
a = ap.parse_args()
obs = {}
allc = {}
for p in a.props.split(","):
    for s in a.seeds.split(","):
        r = subprocess.run([os.path.join(ROOT, "check"), p, "--tier", a.tier],
                           env=dict(os.environ, VERIF_SEED=s), cwd=ROOT,
                           capture_output=True, text=True)
        ev = json.load(open(os.path.join(ROOT, "evidence", f"{p}.json")))
        for k, v in ev["coverage"]["coverage_floors"].items():
            o = obs.setdefault((p, k), {"need": v["need"], "have": []})
            o["have"].append(v["have"])
        for k, v in ev["coverage"].get("counters", {}).items():
            if isinstance(v, (int, float)):
                allc.setdefault(f"{p}|{k}", []).append(v)
        if r.returncode != 0:
            print(f"!! {p} seed {s} exit {r.returncode}: "
                  f"{r.stdout.strip().splitlines()[-1][:160]}")
    for (pp, k), o in obs.items():
        if pp != p:
            continue
        lo = min(o["have"])
        flag = "" if lo >= 3 * o["need"] else "   <-- margin < 3x"
        print(f"{p} {k:50s} need={o['need']:<8} min={lo:<9} max={max(o['have']):<9}{flag}",
              flush=True)
path = os.path.join(ROOT, "notes", f"floors-{a.tier}.json")
old = json.load(open(path)) if os.path.exists(path) else {}
props = set(a.props.split(","))
old = {k: v for k, v in old.items() if k.split("|")[0] not in props}
old.update({f"{p}|{k}": o for (p, k), o in obs.items()})
json.dump(old, open(path, "w"), indent=1)
# every counter seen (minimum over the seeds; 0 when absent for some seed)
n = len(a.seeds.split(","))
path = os.path.join(ROOT, "notes", f"counters-{a.tier}.json")
oldc = json.load(open(path)) if os.path.exists(path) else {}
oldc = {k: v for k, v in oldc.items() if k.split("|")[0] not in props}
oldc.update({k: (min(v) if len(v) == n else 0) for k, v in allc.items()})
json.dump(oldc, open(path, "w"), indent=1, sort_keys=True)
