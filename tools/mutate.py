#!/usr/bin/env python3
"""Validate the monitors against deliberate breaks.

  tools/mutate.py [--only substr] [--tier quick] [--no-baseline] [-j N]

For every mutant of tools/mutants.py: copy /repo (without .git) to a scratch
directory under /tmp, apply the edit, run the repository's own stable tests
on the copy (a mutant that fails them is 'not interesting'), run the listed
checks with NV_REPO pointing at the copy, remove the copy.  A check 'catches'
the mutant iff it exits 1 and prints a VIOLATION line.
"""
import argparse
import concurrent.futures as cf
import json
import os
import shutil
import subprocess
import sys
import tempfile

HERE = os.path.dirname(os.path.abspath(__file__))
ROOT = os.path.dirname(HERE)
sys.path.insert(0, HERE)


def run_one(m, tier, baseline, seed):
    name, props, path, old, new = m
    d = tempfile.mkdtemp(prefix=f"nvmut-{name}-")
    try:
        shutil.copytree("/repo", os.path.join(d, "repo"),
                        ignore=shutil.ignore_patterns(".git", "__pycache__"))
        repo = os.path.join(d, "repo")
        f = os.path.join(repo, path)
        src = open(f).read()
        edits = old if isinstance(old, list) else [(old, new)]
        for o, n in edits:
            if src.count(o) != 1:
                return name, {"error": f"pattern matches {src.count(o)}x"}
            src = src.replace(o, n)
        open(f, "w").write(src)
        res = {"props": {}}
        if baseline:
            env = dict(os.environ, NV_REPO=repo)
            r = subprocess.run([sys.executable,
                                os.path.join(HERE, "baseline_check.py")],
                               env=env, capture_output=True, text=True)
            res["baseline_ok"] = r.returncode == 0
            res["baseline"] = r.stdout.strip().splitlines()[0][:160] \
                if r.stdout.strip() else r.stderr[-200:]
        for p in props:
            env = dict(os.environ, NV_REPO=repo, VERIF_SEED=str(seed))
            r = subprocess.run([os.path.join(ROOT, "check"), p, "--tier",
                                tier], env=env, capture_output=True,
                               text=True, cwd=ROOT)
            viol = [l for l in r.stdout.splitlines()
                    if l.startswith("VIOLATION")]
            mech = [l.strip() for l in r.stdout.splitlines()
                    if l.strip().startswith("clause=")]
            res["props"][p] = {"rc": r.returncode, "caught":
                               r.returncode == 1 and bool(viol),
                               "mech": mech[:1],
                               "tail": r.stdout.strip().splitlines()[-1][:200]
                               if r.stdout.strip() else r.stderr[-300:]}
        return name, res
    finally:
        shutil.rmtree(d, ignore_errors=True)


def main():
    ap = argparse.ArgumentParser()
    ap.add_argument("--only", default="")
    ap.add_argument("--tier", default="quick")
    ap.add_argument("--no-baseline", action="store_true")
    ap.add_argument("-j", type=int, default=3)
    ap.add_argument("--seed", type=int, default=0)
    ap.add_argument("--out", default=os.path.join(ROOT, "notes",
                                                  "mutation-results.json"))
    a = ap.parse_args()
    from mutants import MUTANTS
    ms = [m for m in MUTANTS if a.only in m[0]]
    results = {}
    with cf.ThreadPoolExecutor(a.j) as ex:
        futs = [ex.submit(run_one, m, a.tier, not a.no_baseline, a.seed)
                for m in ms]
        for fu in cf.as_completed(futs):
            name, res = fu.result()
            results[name] = res
            if "error" in res:
                print(f"{name:45s} ERROR {res['error']}")
                continue
            flags = " ".join(f"{p}:{'CAUGHT' if v['caught'] else 'MISSED rc=%d' % v['rc']}"
                             for p, v in res["props"].items())
            b = "" if a.no_baseline else \
                (" baseline:ok" if res.get("baseline_ok") else " baseline:FAILS")
            print(f"{name:45s} {flags}{b}", flush=True)
    missed = [n for n, r in results.items() if "error" in r or
              not all(v["caught"] for v in r["props"].values())]
    print(f"\n{len(results) - len(missed)}/{len(results)} mutants fully caught"
          f"; missed/error: {missed}")
    if not a.only:
        os.makedirs(os.path.dirname(a.out), exist_ok=True)
        json.dump(results, open(a.out, "w"), indent=1)


if __name__ == "__main__":
    main()
