#!/usr/bin/env python3
"""Evaluate seeded changes kept under /verif/seeded/<id>/ (patch.diff, demo.py,
meta.json) against the checks.

  tools/seedcheck.py [ids...] [--tier quick] [--all-props] [--seed N]

For each: copy /repo (without .git) to a scratch directory, confirm the demo
PASSes there, apply the patch, confirm the repository's own stable tests still
pass and the demo now FAILs, run the check of the property the change breaks
(plus --also listed in meta.json "also_check") with NV_REPO pointing at the
scratch copy, remove the copy.  Results go to seeded/<id>/result.json and a
summary table is printed.
"""
import argparse
import json
import os
import shutil
import subprocess
import sys
import tempfile

HERE = os.path.dirname(os.path.abspath(__file__))
ROOT = os.path.dirname(HERE)
SEEDED = os.path.join(ROOT, "seeded")


def sh(cmd, **kw):
    return subprocess.run(cmd, capture_output=True, text=True, **kw)


def run_demo(repo, demo):
    env = dict(os.environ, PYTHONPATH=repo, PYTHONHASHSEED="0")
    r = sh(["/venv/bin/python", demo], env=env, cwd=repo, timeout=900)
    return r.returncode, (r.stdout + r.stderr).strip()[-300:]


def evaluate(sid, tier, seed, all_props):
    d = os.path.join(SEEDED, sid)
    meta = json.load(open(os.path.join(d, "meta.json")))
    prop = meta["property"]
    tmp = tempfile.mkdtemp(prefix=f"nvseed-{sid}-")
    res = {"id": sid, "property": prop}
    try:
        repo = os.path.join(tmp, "repo")
        shutil.copytree("/repo", repo,
                        ignore=shutil.ignore_patterns(".git", "__pycache__"))
        demo = os.path.join(tmp, "demo.py")
        shutil.copy(os.path.join(d, "demo.py"), demo)
        rc0, out0 = run_demo(repo, demo)
        res["demo_on_unchanged"] = {"rc": rc0, "tail": out0[-160:]}
        r = sh(["patch", "-p1", "-i", os.path.join(d, "patch.diff")],
               cwd=repo)
        if r.returncode != 0:
            res["error"] = "patch does not apply: " + r.stdout[-200:]
            return res
        rc1, out1 = run_demo(repo, demo)
        res["demo_with_change"] = {"rc": rc1, "tail": out1[-160:]}
        b = sh([sys.executable, os.path.join(HERE, "baseline_check.py")],
               env=dict(os.environ, NV_REPO=repo))
        res["baseline_ok"] = b.returncode == 0
        res["baseline"] = b.stdout.strip().splitlines()[0][:150] \
            if b.stdout.strip() else b.stderr[-150:]
        props = [prop] + list(meta.get("also_check", []))
        if all_props:
            props = [f"C{i:02d}" for i in range(1, 21)]
        res["checks"] = {}
        for p in props:
            c = sh([os.path.join(ROOT, "check"), p, "--tier", tier],
                   env=dict(os.environ, NV_REPO=repo, VERIF_SEED=str(seed)),
                   cwd=ROOT)
            viol = [l for l in c.stdout.splitlines()
                    if l.startswith("VIOLATION")]
            mech = [l.strip()[:200] for l in c.stdout.splitlines()
                    if l.strip().startswith("clause=")]
            res["checks"][p] = {"rc": c.returncode,
                                "caught": c.returncode == 1 and bool(viol),
                                "mechanism": mech[:1]}
        res["valid_seed"] = rc0 == 0 and rc1 != 0 and res["baseline_ok"]
        return res
    finally:
        shutil.rmtree(tmp, ignore_errors=True)


def main():
    ap = argparse.ArgumentParser()
    ap.add_argument("ids", nargs="*")
    ap.add_argument("--tier", default="quick")
    ap.add_argument("--seed", type=int, default=0)
    ap.add_argument("--all-props", action="store_true")
    a = ap.parse_args()
    ids = a.ids or sorted(x for x in os.listdir(SEEDED)
                          if os.path.isdir(os.path.join(SEEDED, x)))
    for sid in ids:
        res = evaluate(sid, a.tier, a.seed, a.all_props)
        key = "result.json" if a.tier == "quick" else f"result-{a.tier}.json"
        with open(os.path.join(SEEDED, sid, key), "w") as f:
            json.dump(res, f, indent=1)
        if "error" in res:
            print(f"{sid:28s} ERROR {res['error']}")
            continue
        caught = [p for p, v in res["checks"].items() if v["caught"]]
        own = res["checks"].get(res["property"], {})
        print(f"{sid:28s} {res['property']} valid={res['valid_seed']} "
              f"(demo {res['demo_on_unchanged']['rc']}->"
              f"{res['demo_with_change']['rc']}, baseline "
              f"{'ok' if res['baseline_ok'] else 'FAILS'}) "
              f"own-check={'CAUGHT' if own.get('caught') else 'MISSED rc=%s' % own.get('rc')}"
              f" caught_by={caught}", flush=True)


if __name__ == "__main__":
    main()
