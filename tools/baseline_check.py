#!/usr/bin/env python3
"""Run the repository's pinned test-suite (hooks/guard OFF) and compare with
/root/.vp/BASELINE.json: every stable-pass test must still pass.
exit 0 = all stable tests pass."""
import json, os, subprocess, sys, tempfile, xml.etree.ElementTree as ET

REPO = os.environ.get("NV_REPO", "/repo")
base = json.load(open("/root/.vp/BASELINE.json"))
stable = set(base["stable_pass"])
with tempfile.TemporaryDirectory() as d:
    xml = os.path.join(d, "r.xml")
    env = dict(os.environ)
    env.pop("NASIM_VERIF", None)
    subprocess.run(["/venv/bin/python", "-m", "pytest", "-q", "-p", "no:cacheprovider",
                    "--timeout=900", "--continue-on-collection-errors",
                    f"--junitxml={xml}"], cwd=REPO, env=env,
                   stdout=subprocess.DEVNULL, stderr=subprocess.DEVNULL)
    passed = set()
    failed = set()
    for tc in ET.parse(xml).getroot().iter("testcase"):
        tid = f"{tc.get('classname')}::{tc.get('name')}"
        bad = any(ch.tag in ("failure", "error", "skipped") for ch in tc)
        (failed if bad else passed).add(tid)
missing = sorted(stable - passed)
print(f"stable={len(stable)} passed_now={len(passed)} failed_now={len(failed)} "
      f"stable_not_passing={len(missing)} newly_passing={len(passed - stable)}")
for m in missing[:20]:
    print("  NOT PASSING:", m)
sys.exit(1 if missing else 0)
